import HeartwoodModel.Model.FetchSched
/-!
# C16 — At most one fetch per repository, attributed to the right peer

Property theorems about `Model/FetchSched.lean`. All of them quantify over every configuration
(`fetch_concurrency`, persistent peers, the `refs_status_of` function `want`) and every finite sequence
of events `ops` (with every shuffle order `perm` and every sync plan `plan`, with and without the
`wireFilter` on worker results), i.e. over all reachable states.

Property theorems: `no_panic`, `dequeue_unwrap_safe`, `session_consistency`, `one_fetch_per_repo`,
`capacity_respected`, `emitted_registered` (all at full strength, from the invariant `Inv`: `init_inv`,
`step_inv`, `run_inv`), and — the full statement being false of the current code —
`result_attributed_counterexample` + `result_attributed_partial` (ghost invariant `Attr`).
-/
set_option linter.unusedSimpArgs false
set_option linter.unusedVariables false
namespace HeartwoodModel.FetchSched

/-! ### basics -/

@[simp] theorem upd_same {α : Type} (f : Nat → Option α) (k : Nat) (v : Option α) : upd f k v k = v := by
  simp [upd]

theorem upd_other {α : Type} (f : Nat → Option α) {k j : Nat} (v : Option α) (h : j ≠ k) :
    upd f k v j = f j := by
  simp [upd, h]

theorem upd_eq {α : Type} (f : Nat → Option α) (k j : Nat) (v : Option α) :
    upd f k v j = if j = k then v else f j := rfl

@[simp] theorem setSession_fetching (s : State) (n : Nid) (x : Option Session) :
    (setSession s n x).fetching = s.fetching := rfl

@[simp] theorem setSession_sessions (s : State) (n : Nid) (x : Option Session) :
    (setSession s n x).sessions = upd s.sessions n x := rfl

@[simp] theorem setSession_pending (s : State) (n : Nid) (x : Option Session) :
    (setSession s n x).pending = s.pending := rfl

@[simp] theorem setSession_emits (s : State) (n : Nid) (x : Option Session) :
    (setSession s n x).emits = s.emits := rfl

@[simp] theorem setSession_misattributed (s : State) (n : Nid) (x : Option Session) :
    (setSession s n x).misattributed = s.misattributed := rfl

@[simp] theorem setSession_refetched (s : State) (n : Nid) (x : Option Session) :
    (setSession s n x).refetched = s.refetched := rfl

/-- What the property says about one session, given the `fetching` map. -/
def SessOK (c : Cfg) (fet : Rid → Option Fetch) (n : Nid) (x : Session) : Prop :=
  x.id = n ∧ (∀ r, r ∈ x.fset → ∃ f, fet r = some f ∧ f.frm = n) ∧ x.fset.Nodup ∧
  x.fset.length ≤ c.conc ∧ x.queue.length ≤ maxQueue

/-- The converse of `SessOK`'s second clause: every registered fetch is in the set of its session. -/
def Conv (s : State) : Prop :=
  ∀ r f, s.fetching r = some f → ∃ x, s.sessions f.frm = some x ∧ r ∈ x.fset

/-- The invariant. -/
structure Inv (c : Cfg) (s : State) : Prop where
  sess : ∀ n x, s.sessions n = some x → SessOK c s.fetching n x
  conn : ∀ r f, s.fetching r = some f → ∃ x, s.sessions f.frm = some x ∧ x.isConnected = true
  conv : Conv s

theorem fset_of_not_connected {x : Session} (h : x.isConnected = false) : x.fset = [] := by
  unfold Session.isConnected at h; unfold Session.fset; split at h <;> simp_all

theorem connected_of_mem_fset {x : Session} {r : Rid} (h : r ∈ x.fset) : x.isConnected = true := by
  unfold Session.fset at h; unfold Session.isConnected; split at h <;> simp_all

theorem SessOK.of_fset_nil {c : Cfg} {fet : Rid → Option Fetch} {n : Nid} {x : Session}
    (hid : x.id = n) (hf : x.fset = []) (hq : x.queue.length ≤ maxQueue) : SessOK c fet n x := by
  refine ⟨hid, ?_, ?_, ?_, hq⟩ <;> simp [hf]

theorem init_inv (c : Cfg) : Inv c (init c) := by
  refine ⟨?_, ?_, ?_⟩
  · intro n x h
    simp only [init] at h
    split at h
    · cases h; exact SessOK.of_fset_nil rfl rfl (by simp [maxQueue])
    · cases h
  · intro r f h; simp [init] at h
  · intro r f h; simp [init] at h

/-- Replacing a session by one with the same fetching set, id and connectedness. -/
theorem Inv.setSession_same {c : Cfg} {s : State} {n : Nid} {x x' : Session} (h : Inv c s)
    (hx : s.sessions n = some x) (hid : x'.id = x.id) (hst : x'.st = x.st)
    (hq : x'.queue.length ≤ maxQueue) : Inv c (setSession s n (some x')) := by
  have hfs : x'.fset = x.fset := by simp [Session.fset, hst]
  have hco : x'.isConnected = x.isConnected := by simp [Session.isConnected, hst]
  refine ⟨?_, ?_, ?_⟩
  · intro m y hy
    simp only [setSession_sessions, setSession_fetching, upd_eq] at hy
    split at hy
    · cases hy; subst_vars
      obtain ⟨h1, h2, h3, h4, _⟩ := h.sess _ _ hx
      exact ⟨hid.trans h1, by simpa [hfs] using h2, by simpa [hfs] using h3, by simpa [hfs] using h4, hq⟩
    · exact h.sess m y hy
  · intro r f hf
    obtain ⟨y, hy, hc⟩ := h.conn r f hf
    simp only [setSession_sessions, setSession_fetching, upd_eq]
    split
    · rename_i he; rw [he, hx] at hy; cases hy; exact ⟨x', rfl, hco ▸ hc⟩
    · exact ⟨y, hy, hc⟩
  · intro r f hf
    obtain ⟨y, hy, hr⟩ := h.conv r f hf
    simp only [setSession_sessions, setSession_fetching, upd_eq]
    split
    · rename_i he; rw [he, hx] at hy; cases hy; exact ⟨x', rfl, hfs ▸ hr⟩
    · exact ⟨y, hy, hr⟩

/-- Installing a session with an empty fetching set for a node that no registered fetch is from. -/
theorem Inv.setSession_fresh {c : Cfg} {s : State} {n : Nid} {x' : Session} (h : Inv c s)
    (hid : x'.id = n) (hf : x'.fset = []) (hq : x'.queue.length ≤ maxQueue)
    (hc : ∀ r f, s.fetching r = some f → f.frm ≠ n) :
    Inv c (setSession s n (some x')) := by
  refine ⟨?_, ?_, ?_⟩
  · intro m y hy
    simp only [setSession_sessions, setSession_fetching, upd_eq] at hy
    split at hy
    · cases hy; subst_vars; exact SessOK.of_fset_nil rfl hf hq
    · exact h.sess m y hy
  · intro r f hfe
    obtain ⟨y, hy, hcy⟩ := h.conn r f hfe
    exact ⟨y, by rw [setSession_sessions, upd_other _ _ (hc r f hfe)]; exact hy, hcy⟩
  · intro r f hfe
    obtain ⟨y, hy, hr⟩ := h.conv r f hfe
    exact ⟨y, by rw [setSession_sessions, upd_other _ _ (hc r f hfe)]; exact hy, hr⟩

/-- The invariant only looks at `sessions` and `fetching`. -/
theorem Inv.congr {c : Cfg} {s s' : State} (h : Inv c s)
    (hs : s'.sessions = s.sessions) (hf : s'.fetching = s.fetching) : Inv c s' := by
  refine ⟨?_, ?_, ?_⟩
  · intro n x hx; rw [hs] at hx; rw [hf]; exact h.sess n x hx
  · intro r f hr; rw [hf] at hr; rw [hs]; exact h.conn r f hr
  · intro r f hr; rw [hf] at hr; rw [hs]; exact h.conv r f hr

/-! ### `try_fetch` -/

@[simp] theorem fset_with_connected (x : Session) (fs : List Rid) :
    ({ x with st := .connected fs } : Session).fset = fs := rfl

@[simp] theorem isConnected_with_connected (x : Session) (fs : List Rid) :
    ({ x with st := .connected fs } : Session).isConnected = true := rfl

theorem fset_of_st {x : Session} {fs : List Rid} (h : x.st = .connected fs) : x.fset = fs := by
  simp [Session.fset, h]

theorem isConnected_of_st {x : Session} {fs : List Rid} (h : x.st = .connected fs) : x.isConnected = true := by
  simp [Session.isConnected, h]

/-- Starting a fetch: `fetching[rid]` was vacant, the session is connected, below capacity and not
marked as fetching `rid`. -/
theorem Inv.start {c : Cfg} {s S' : State} {rid : Rid} {frm : Nid} {x : Session} {fs : List Rid}
    {fe : Fetch} (h : Inv c s) (hx : s.sessions frm = some x) (hst : x.st = .connected fs)
    (hv : s.fetching rid = none) (hcap : ¬ c.conc ≤ fs.length) (hni : rid ∉ fs) (hfe : fe.frm = frm)
    (hS : S'.sessions = upd s.sessions frm (some { x with st := .connected (rid :: fs) }))
    (hF : S'.fetching = upd s.fetching rid (some fe)) : Inv c S' := by
  have hxf : x.fset = fs := fset_of_st hst
  obtain ⟨i1, i2, i3, i4, i5⟩ := h.sess _ _ hx
  rw [hxf] at i2 i3 i4
  have hne : ∀ r f, s.fetching r = some f → r ≠ rid := by
    intro r f hf e; rw [e, hv] at hf; cases hf
  refine ⟨?_, ?_, ?_⟩
  · intro m y hy
    rw [hS, upd_eq] at hy
    rw [hF]
    split at hy
    · rename_i he
      cases hy; subst he
      refine ⟨i1, ?_, ?_, ?_, i5⟩
      · intro r hr
        rw [fset_with_connected, List.mem_cons] at hr
        rcases hr with hr | hr
        · rw [hr]; exact ⟨fe, upd_same _ _ _, hfe⟩
        · obtain ⟨f, hf, hfr⟩ := i2 r hr
          exact ⟨f, by rw [upd_other _ _ (hne r f hf)]; exact hf, hfr⟩
      · rw [fset_with_connected]; exact List.nodup_cons.mpr ⟨hni, i3⟩
      · rw [fset_with_connected, List.length_cons]; omega
    · obtain ⟨j1, j2, j3, j4, j5⟩ := h.sess m y hy
      refine ⟨j1, ?_, j3, j4, j5⟩
      intro r hr
      obtain ⟨f, hf, hfr⟩ := j2 r hr
      exact ⟨f, by rw [upd_other _ _ (hne r f hf)]; exact hf, hfr⟩
  · intro r f hf
    rw [hF, upd_eq] at hf
    rw [hS]
    split at hf
    · cases hf; rw [hfe]; exact ⟨_, upd_same _ _ _, rfl⟩
    · obtain ⟨y, hy, hc⟩ := h.conn r f hf
      by_cases he : f.frm = frm
      · rw [he]; exact ⟨_, upd_same _ _ _, rfl⟩
      · exact ⟨y, by rw [upd_other _ _ he]; exact hy, hc⟩
  · intro r f hf
    rw [hF, upd_eq] at hf
    rw [hS]
    split at hf
    · rename_i he
      cases hf; rw [hfe, he]
      exact ⟨_, upd_same _ _ _, by rw [fset_with_connected]; exact List.mem_cons_self⟩
    · obtain ⟨y, hy, hr⟩ := h.conv r f hf
      by_cases he : f.frm = frm
      · rw [he] at hy ⊢; rw [hx] at hy; cases hy
        rw [hxf] at hr
        exact ⟨_, upd_same _ _ _, by rw [fset_with_connected]; exact List.mem_cons_of_mem _ hr⟩
      · exact ⟨y, by rw [upd_other _ _ he]; exact hy, hr⟩

theorem tryFetch_inv {c : Cfg} {s s' : State} {rid : Rid} {frm : Nid} {refs : Nat} {r : TryFetch}
    (h : Inv c s) (ht : tryFetch c s rid frm refs = .ok (s', r)) : Inv c s' := by
  unfold tryFetch at ht
  split at ht
  · cases ht; exact h
  · rename_i x hx
    split at ht
    · cases ht; exact h
    · rename_i hv
      split at ht
      · rename_i fs hst
        split at ht
        · cases ht; exact h
        · rename_i hcap
          split at ht
          · cases ht
          · rename_i hni
            cases ht
            exact h.start hx hst hv hcap (by simpa using hni) rfl rfl rfl
      · cases ht; exact h

/-- `try_fetch` never fails: the `assert!` of `Session::fetching` cannot fire in a state satisfying the
invariant (a session is only marked as fetching what `Service.fetching` registers for it). -/
theorem tryFetch_ok {c : Cfg} {s : State} (h : Inv c s) (rid : Rid) (frm : Nid) (refs : Nat) :
    ∃ s' r, tryFetch c s rid frm refs = .ok (s', r) := by
  unfold tryFetch
  split
  · exact ⟨_, _, rfl⟩
  · rename_i x hx
    split
    · exact ⟨_, _, rfl⟩
    · rename_i hv
      split
      · rename_i fs hst
        split
        · exact ⟨_, _, rfl⟩
        · split
          · rename_i hin
            exfalso
            obtain ⟨_, i2, _⟩ := h.sess _ _ hx
            obtain ⟨f, hf, _⟩ := i2 rid (by rw [fset_of_st hst]; simpa using hin)
            rw [hv] at hf; cases hf
          · exact ⟨_, _, rfl⟩
      · exact ⟨_, _, rfl⟩

/-! ### queueing and `_fetch` -/

theorem queueFetch_inv {c : Cfg} {s s' : State} {q : QFetch} (h : Inv c s)
    (hq : queueFetch s q = .ok s') : Inv c s' := by
  unfold queueFetch at hq
  split at hq
  · cases hq; exact h
  · rename_i x hx
    split at hq
    · cases hq
    · split at hq
      · cases hq; exact h
      · rename_i hlen
        split at hq
        · cases hq; exact h
        · cases hq
          refine h.setSession_same hx rfl rfl ?_
          simp only [List.length_append, List.length_cons, List.length_nil]
          omega

/-- The `assert_eq!(fetch.from, self.id)` of `Session::queue_fetch` cannot fire. -/
theorem queueFetch_ok {c : Cfg} {s : State} (h : Inv c s) (q : QFetch) :
    ∃ s', queueFetch s q = .ok s' := by
  unfold queueFetch
  split
  · exact ⟨_, rfl⟩
  · rename_i x hx
    have := (h.sess _ _ hx).1
    split
    · contradiction
    · split
      · exact ⟨_, rfl⟩
      · split <;> exact ⟨_, rfl⟩

theorem fetch_inv {c : Cfg} {s s' : State} {rid : Rid} {frm : Nid} {refs : Nat} {chan : Bool}
    (h : Inv c s) (hf : fetch c s rid frm refs chan = .ok s') : Inv c s' := by
  unfold fetch at hf
  split at hf
  · cases hf
  · rename_i s1 ht; cases hf; exact tryFetch_inv h ht
  · rename_i s1 f ht
    have h1 := tryFetch_inv h ht
    split at hf
    · cases hf; exact h1
    · exact queueFetch_inv h1 hf
  · rename_i s1 ht; exact queueFetch_inv (tryFetch_inv h ht) hf
  · rename_i s1 ht; cases hf; exact tryFetch_inv h ht

theorem fetch_ok {c : Cfg} {s : State} (h : Inv c s) (rid : Rid) (frm : Nid) (refs : Nat)
    (chan : Bool) : ∃ s', fetch c s rid frm refs chan = .ok s' := by
  obtain ⟨s1, r, ht⟩ := tryFetch_ok h rid frm refs
  have h1 := tryFetch_inv h ht
  unfold fetch
  rw [ht]
  cases r with
  | started => exact ⟨_, rfl⟩
  | already f =>
    simp only
    split
    · exact ⟨_, rfl⟩
    · exact queueFetch_ok h1 _
  | capacity => exact queueFetch_ok h1 _
  | notConnected => exact ⟨_, rfl⟩

theorem fetchRefsAt_inv {c : Cfg} {s s' : State} {rid : Rid} {frm : Nid} {refs : Nat} {chan : Bool}
    (h : Inv c s) (hf : fetchRefsAt c s rid frm refs chan = .ok s') : Inv c s' := by
  unfold fetchRefsAt at hf
  split at hf
  · cases hf; exact h
  · exact fetch_inv h hf

theorem fetchRefsAt_ok {c : Cfg} {s : State} (h : Inv c s) (rid : Rid) (frm : Nid) (refs : Nat)
    (chan : Bool) : ∃ s', fetchRefsAt c s rid frm refs chan = .ok s' := by
  unfold fetchRefsAt
  split
  · exact ⟨_, rfl⟩
  · exact fetch_ok h _ _ _ _

/-! ### `dequeue_fetches` -/

theorem dequeueOne_inv {c : Cfg} {s s' : State} {n : Nid} (h : Inv c s)
    (hd : dequeueOne c s n = .ok s') : Inv c s' := by
  unfold dequeueOne at hd
  split at hd
  · cases hd
  · rename_i x hx
    split at hd
    · cases hd; exact h
    · split at hd
      · cases hd; exact h
      · rename_i q rest hq
        have h1 : Inv c (setSession s n (some { x with queue := rest })) := by
          refine h.setSession_same hx rfl rfl ?_
          have := (h.sess _ _ hx).2.2.2.2
          rw [hq] at this
          simp only [List.length_cons] at this
          show rest.length ≤ maxQueue
          omega
        simp only at hd
        split at hd
        · exact fetch_inv h1 hd
        · exact fetchRefsAt_inv h1 hd

/-- One round of the dequeue loop fails only if `perm` names a node without session. -/
theorem dequeueOne_ok {c : Cfg} {s : State} {n : Nid} (h : Inv c s)
    (hk : (s.sessions n).isSome = true) : ∃ s', dequeueOne c s n = .ok s' := by
  unfold dequeueOne
  split
  · rename_i hn; rw [hn] at hk; cases hk
  · rename_i x hx
    split
    · exact ⟨_, rfl⟩
    · split
      · exact ⟨_, rfl⟩
      · rename_i q rest hq
        have h1 : Inv c (setSession s n (some { x with queue := rest })) := by
          refine h.setSession_same hx rfl rfl ?_
          have := (h.sess _ _ hx).2.2.2.2
          rw [hq] at this
          simp only [List.length_cons] at this
          show rest.length ≤ maxQueue
          omega
        simp only
        split
        · exact fetch_ok h1 _ _ _ _
        · exact fetchRefsAt_ok h1 _ _ _ _

theorem dequeueFetches_inv {c : Cfg} {s s' : State} {perm : List Nid} (h : Inv c s)
    (hd : dequeueFetches c s perm = .ok s') : Inv c s' := by
  induction perm generalizing s with
  | nil => simp only [dequeueFetches] at hd; cases hd; exact h
  | cons n ns ih =>
    simp only [dequeueFetches] at hd
    split at hd
    · rename_i s1 h1; exact ih (dequeueOne_inv h h1) hd
    · cases hd

theorem dequeueOne_err {c : Cfg} {s : State} {n : Nid} {e : Err} (h : Inv c s)
    (hd : dequeueOne c s n = .error e) : e = .badPerm ∧ s.sessions n = none := by
  cases hn : s.sessions n with
  | none => simp [dequeueOne, hn] at hd; exact ⟨hd.symm, rfl⟩
  | some x =>
    obtain ⟨s', hs⟩ := dequeueOne_ok h (n := n) (by simp [hn])
    rw [hs] at hd; cases hd

theorem dequeueFetches_err {c : Cfg} {s : State} {perm : List Nid} {e : Err} (h : Inv c s)
    (hd : dequeueFetches c s perm = .error e) : e = .badPerm := by
  induction perm generalizing s with
  | nil => simp [dequeueFetches] at hd
  | cons n ns ih =>
    simp only [dequeueFetches] at hd
    split at hd
    · rename_i s1 h1; exact ih (dequeueOne_inv h h1) hd
    · rename_i e1 h1; cases hd; exact (dequeueOne_err h h1).1

/-! The key set of `sessions` is not changed by the dequeue loop, so the `unwrap` of
`dequeue_fetches` (here: `badPerm`) cannot fail when `perm` lists existing sessions. -/

def SameKeys (s s' : State) : Prop := ∀ m, (s'.sessions m).isSome = (s.sessions m).isSome

theorem SameKeys.refl (s : State) : SameKeys s s := fun _ => rfl

theorem SameKeys.trans {s1 s2 s3 : State} (h1 : SameKeys s1 s2) (h2 : SameKeys s2 s3) : SameKeys s1 s3 :=
  fun m => (h2 m).trans (h1 m)

theorem sameKeys_setSession {s : State} {n : Nid} {x x' : Session} (hx : s.sessions n = some x) :
    SameKeys s (setSession s n (some x')) := by
  intro m
  simp only [setSession_sessions, upd_eq]
  split
  · rename_i he; rw [he, hx]; rfl
  · rfl

theorem tryFetch_keys {c : Cfg} {s s' : State} {rid : Rid} {frm : Nid} {refs : Nat} {r : TryFetch}
    (ht : tryFetch c s rid frm refs = .ok (s', r)) : SameKeys s s' := by
  unfold tryFetch at ht
  split at ht
  · cases ht; exact SameKeys.refl _
  · rename_i x hx
    split at ht
    · cases ht; exact SameKeys.refl _
    · split at ht
      · split at ht
        · cases ht; exact SameKeys.refl _
        · split at ht
          · cases ht
          · cases ht
            intro m
            simp only [upd_eq]
            split
            · rename_i he; rw [he, hx]; rfl
            · rfl
      · cases ht; exact SameKeys.refl _

theorem queueFetch_keys {s s' : State} {q : QFetch} (hq : queueFetch s q = .ok s') : SameKeys s s' := by
  unfold queueFetch at hq
  split at hq
  · cases hq; exact SameKeys.refl _
  · rename_i x hx
    split at hq
    · cases hq
    · split at hq
      · cases hq; exact SameKeys.refl _
      · split at hq
        · cases hq; exact SameKeys.refl _
        · cases hq; exact sameKeys_setSession hx

theorem fetch_keys {c : Cfg} {s s' : State} {rid : Rid} {frm : Nid} {refs : Nat} {chan : Bool}
    (hf : fetch c s rid frm refs chan = .ok s') : SameKeys s s' := by
  unfold fetch at hf
  split at hf
  · cases hf
  · rename_i s1 ht; cases hf; exact tryFetch_keys ht
  · rename_i s1 f ht
    split at hf
    · cases hf; exact tryFetch_keys ht
    · exact (tryFetch_keys ht).trans (queueFetch_keys hf)
  · rename_i s1 ht; exact (tryFetch_keys ht).trans (queueFetch_keys hf)
  · rename_i s1 ht; cases hf; exact tryFetch_keys ht

theorem fetchRefsAt_keys {c : Cfg} {s s' : State} {rid : Rid} {frm : Nid} {refs : Nat} {chan : Bool}
    (hf : fetchRefsAt c s rid frm refs chan = .ok s') : SameKeys s s' := by
  unfold fetchRefsAt at hf
  split at hf
  · cases hf; exact SameKeys.refl _
  · exact fetch_keys hf

theorem dequeueOne_keys {c : Cfg} {s s' : State} {n : Nid} (hd : dequeueOne c s n = .ok s') :
    SameKeys s s' := by
  unfold dequeueOne at hd
  split at hd
  · cases hd
  · rename_i x hx
    split at hd
    · cases hd; exact SameKeys.refl _
    · split at hd
      · cases hd; exact SameKeys.refl _
      · simp only at hd
        split at hd
        · exact (sameKeys_setSession hx).trans (fetch_keys hd)
        · exact (sameKeys_setSession hx).trans (fetchRefsAt_keys hd)

theorem dequeueFetches_keys {c : Cfg} {s s' : State} {perm : List Nid}
    (hd : dequeueFetches c s perm = .ok s') : SameKeys s s' := by
  induction perm generalizing s with
  | nil => simp only [dequeueFetches] at hd; cases hd; exact SameKeys.refl _
  | cons n ns ih =>
    simp only [dequeueFetches] at hd
    split at hd
    · rename_i s1 h1; exact (dequeueOne_keys h1).trans (ih hd)
    · cases hd

/-- With a `perm` that only lists existing sessions (as `Sessions::shuffled()` does) the dequeue loop
completes: neither a panic nor the `unwrap` on a missing key. -/
theorem dequeueFetches_ok {c : Cfg} {s : State} {perm : List Nid} (h : Inv c s)
    (hp : ∀ n, n ∈ perm → (s.sessions n).isSome = true) : ∃ s', dequeueFetches c s perm = .ok s' := by
  induction perm generalizing s with
  | nil => exact ⟨s, rfl⟩
  | cons n ns ih =>
    obtain ⟨s1, h1⟩ := dequeueOne_ok h (hp n List.mem_cons_self)
    simp only [dequeueFetches, h1]
    refine ih (dequeueOne_inv h h1) ?_
    intro m hm
    rw [dequeueOne_keys h1 m]
    exact hp m (List.mem_cons_of_mem _ hm)

/-! ### the events -/

theorem fetched_pre_inv {c : Cfg} {s : State} {rid : Rid} {n : Nid} {f : Fetch} (h : Inv c s)
    (hf : s.fetching rid = some f) (hn : f.frm = n) :
    Inv c (match ({ s with fetching := upd s.fetching rid none } : State).sessions n with
      | some x => setSession { s with fetching := upd s.fetching rid none } n (some (x.fetched rid))
      | none => { s with fetching := upd s.fetching rid none }) := by
  obtain ⟨x, hx, hxc⟩ := h.conn rid f hf
  rw [hn] at hx
  simp only [hx]
  obtain ⟨i1, i2, i3, i4, i5⟩ := h.sess _ _ hx
  -- shape of the session after `Session::fetched`
  obtain ⟨fs, hst⟩ : ∃ fs, x.st = .connected fs := by
    unfold Session.isConnected at hxc
    split at hxc
    · exact ⟨_, ‹_›⟩
    · cases hxc
  have hxf : x.fset = fs := fset_of_st hst
  have hsh : x.fetched rid = { x with st := .connected (fs.filter (fun r => r != rid)) } := by
    simp [Session.fetched, hst]
  have hfs : (x.fetched rid).fset = x.fset.filter (fun r => r != rid) := by rw [hsh, hxf]; rfl
  have hid : (x.fetched rid).id = x.id := by rw [hsh]
  have hqu : (x.fetched rid).queue = x.queue := by rw [hsh]
  have hco : (x.fetched rid).isConnected = true := by rw [hsh]; rfl
  refine ⟨?_, ?_, ?_⟩
  · intro m y hy
    simp only [setSession_sessions, setSession_fetching, upd_eq] at hy ⊢
    split at hy
    · rename_i he
      cases hy; subst he
      refine ⟨hid.trans i1, ?_, ?_, ?_, hqu ▸ i5⟩
      · intro r hr
        rw [hfs, List.mem_filter] at hr
        obtain ⟨f', hf', hfr⟩ := i2 r hr.1
        have : r ≠ rid := by simpa using hr.2
        exact ⟨f', by rw [upd_other _ _ this]; exact hf', hfr⟩
      · rw [hfs]; exact i3.filter _
      · rw [hfs]; exact Nat.le_trans (List.length_filter_le _ _) i4
    · rename_i he
      obtain ⟨j1, j2, j3, j4, j5⟩ := h.sess m y hy
      refine ⟨j1, ?_, j3, j4, j5⟩
      intro r hr
      obtain ⟨f', hf', hfr⟩ := j2 r hr
      have : r ≠ rid := by
        intro e; rw [e, hf] at hf'; cases hf'; exact he (hfr.symm.trans hn)
      exact ⟨f', by rw [upd_other _ _ this]; exact hf', hfr⟩
  · intro r f' hf'
    simp only [setSession_sessions, setSession_fetching, upd_eq] at hf' ⊢
    split at hf'
    · cases hf'
    · obtain ⟨y, hy, hc⟩ := h.conn r f' hf'
      split
      · exact ⟨_, rfl, hco⟩
      · exact ⟨y, hy, hc⟩
  · intro r f' hf'
    simp only [setSession_sessions, setSession_fetching, upd_eq] at hf' ⊢
    split at hf'
    · cases hf'
    · rename_i hne
      obtain ⟨y, hy, hr⟩ := h.conv r f' hf'
      split
      · rename_i he
        rw [he, hx] at hy; cases hy
        exact ⟨_, rfl, by rw [hfs, List.mem_filter]; exact ⟨hr, by simpa using hne⟩⟩
      · exact ⟨y, hy, hr⟩

theorem fetched_inv {c : Cfg} {s s' : State} {rid : Rid} {n : Nid} {perm : List Nid}
    (h : Inv c s) (hf : fetched c s rid n perm = .ok s') : Inv c s' := by
  unfold fetched at hf
  split at hf
  · cases hf; exact h
  · rename_i f hfe
    split at hf
    · rename_i hn
      exact dequeueFetches_inv (fetched_pre_inv h hfe hn) hf
    · cases hf; exact h

theorem fetched_err {c : Cfg} {s : State} {rid : Rid} {n : Nid} {perm : List Nid} {e : Err}
    (h : Inv c s) (hf : fetched c s rid n perm = .error e) : e = .badPerm := by
  unfold fetched at hf
  split at hf
  · cases hf
  · rename_i f hfe
    split at hf
    · rename_i hn
      exact dequeueFetches_err (fetched_pre_inv h hfe hn) hf
    · cases hf

theorem Inv.no_fetch_of_not_connected {c : Cfg} {s : State} {n : Nid} (h : Inv c s)
    (hn : ∀ x, s.sessions n = some x → x.isConnected = false) {r : Rid} {f : Fetch}
    (hf : s.fetching r = some f) : f.frm ≠ n := by
  intro he
  obtain ⟨y, hy, hc⟩ := h.conn r f hf
  rw [he] at hy
  rw [hn y hy] at hc; cases hc

theorem dial_inv {c : Cfg} {s : State} {n : Nid} (h : Inv c s) : Inv c (dial s n) := by
  unfold dial
  split
  · exact h
  · rename_i hx
    refine h.setSession_fresh rfl rfl (by simp [maxQueue]) ?_
    intro r f hf
    exact h.no_fetch_of_not_connected (by intro x hx'; rw [hx] at hx'; cases hx') hf

theorem dropFrom_some {fet : Rid → Option Fetch} {n : Nid} {r : Rid} {f : Fetch} :
    dropFrom fet n r = some f ↔ fet r = some f ∧ f.frm ≠ n := by
  unfold dropFrom
  cases hfr : fet r with
  | none => simp
  | some f' =>
    simp only
    by_cases he : f'.frm = n
    · simp only [he, if_true]
      constructor
      · intro h; cases h
      · rintro ⟨h1, h2⟩; cases h1; exact (h2 he).elim
    · simp only [he, if_false]
      constructor
      · intro h; cases h; exact ⟨rfl, he⟩
      · rintro ⟨h1, _⟩; exact h1

/-- `disconnected`: the fetches from `n` are dropped and its session is removed or marked disconnected. -/
theorem disconnected_pre_inv {c : Cfg} {s : State} {n : Nid} {xo : Option Session} (h : Inv c s)
    (hxo : ∀ x', xo = some x' → x'.id = n ∧ x'.fset = [] ∧ x'.queue.length ≤ maxQueue) :
    Inv c (setSession { s with fetching := dropFrom s.fetching n } n xo) := by
  refine ⟨?_, ?_, ?_⟩
  · intro m y hy
    simp only [setSession_sessions, setSession_fetching, upd_eq] at hy ⊢
    split at hy
    · rename_i he
      obtain ⟨a1, a2, a3⟩ := hxo y hy
      exact SessOK.of_fset_nil (a1.trans he.symm) a2 a3
    · rename_i he
      obtain ⟨j1, j2, j3, j4, j5⟩ := h.sess m y hy
      refine ⟨j1, ?_, j3, j4, j5⟩
      intro r hr
      obtain ⟨f, hf, hfr⟩ := j2 r hr
      exact ⟨f, dropFrom_some.mpr ⟨hf, by rw [hfr]; exact he⟩, hfr⟩
  · intro r f hf
    simp only [setSession_sessions, setSession_fetching] at hf ⊢
    obtain ⟨hf, hne⟩ := dropFrom_some.mp hf
    obtain ⟨y, hy, hc⟩ := h.conn r f hf
    exact ⟨y, by rw [upd_other _ _ hne]; exact hy, hc⟩
  · intro r f hf
    simp only [setSession_sessions, setSession_fetching] at hf ⊢
    obtain ⟨hf, hne⟩ := dropFrom_some.mp hf
    obtain ⟨y, hy, hr⟩ := h.conv r f hf
    exact ⟨y, by rw [upd_other _ _ hne]; exact hy, hr⟩

/-- Resetting an existing session (`connected` for a node that has one): if it was connected, its
fetches are dropped with it — exactly like a disconnection followed by a connection. -/
theorem resetSession_inv {c : Cfg} {s : State} {n : Nid} {x : Session} (h : Inv c s)
    (hid : x.id = n) (hq : x.queue.length ≤ maxQueue)
    (hx : ∀ y, s.sessions n = some y → y.isConnected = x.isConnected) (hs : (s.sessions n).isSome = true) :
    Inv c (resetSession s n x) := by
  unfold resetSession
  cases hc : x.isConnected with
  | true =>
    simp only [if_true]
    refine disconnected_pre_inv h ?_
    intro x' hx'; cases hx'
    exact ⟨hid, rfl, hq⟩
  | false =>
    simp only [Bool.false_eq_true, if_false]
    refine h.setSession_fresh hid rfl hq ?_
    intro r f hf
    exact h.no_fetch_of_not_connected (by intro y hy; rw [hx y hy, hc]) hf

theorem connected_inv {c : Cfg} {s : State} {n : Nid} {link : Link} (h : Inv c s) :
    Inv c (connected s n link) := by
  unfold connected
  split
  · rename_i x hx
    exact resetSession_inv h (h.sess _ _ hx).1 (h.sess _ _ hx).2.2.2.2
      (by intro y hy; rw [hx] at hy; cases hy; rfl) (by simp [hx])
  · exact h
  · rename_i x hx
    exact resetSession_inv h (h.sess _ _ hx).1 (h.sess _ _ hx).2.2.2.2
      (by intro y hy; rw [hx] at hy; cases hy; rfl) (by simp [hx])
  · rename_i hx
    refine h.setSession_fresh rfl rfl (by simp [maxQueue]) ?_
    intro r f hf
    exact h.no_fetch_of_not_connected (by intro x hx'; rw [hx] at hx'; cases hx') hf

theorem disconnected_mid_inv {c : Cfg} {s : State} {n : Nid} {x : Session} (h : Inv c s)
    (hx : s.sessions n = some x) :
    Inv c (if c.persist.contains n
      then setSession { s with fetching := dropFrom s.fetching n } n (some { x with st := .disconnected })
      else setSession { s with fetching := dropFrom s.fetching n } n none) := by
  split
  · refine disconnected_pre_inv h ?_
    intro x' hx'; cases hx'
    exact ⟨(h.sess _ _ hx).1, rfl, (h.sess _ _ hx).2.2.2.2⟩
  · exact disconnected_pre_inv h (by intro x' hx'; cases hx')

theorem disconnected_inv {c : Cfg} {s s' : State} {n : Nid} {link : Link} {perm : List Nid}
    (h : Inv c s) (hd : disconnected c s n link perm = .ok s') : Inv c s' := by
  unfold disconnected at hd
  split at hd
  · cases hd; exact h
  · rename_i x hx
    split at hd
    · cases hd; exact h
    · exact dequeueFetches_inv (disconnected_mid_inv h hx) hd

theorem disconnected_err {c : Cfg} {s : State} {n : Nid} {link : Link} {perm : List Nid} {e : Err}
    (h : Inv c s) (hd : disconnected c s n link perm = .error e) : e = .badPerm := by
  unfold disconnected at hd
  split at hd
  · cases hd
  · rename_i x hx
    split at hd
    · cases hd
    · exact dequeueFetches_err (disconnected_mid_inv h hx) hd

theorem refsAnn_mid_inv {c : Cfg} {s : State} {n : Nid} {x : Session} (h : Inv c s)
    (hx : s.sessions n = some x) (hst : x.st = .attempted) :
    Inv c (setSession s n (some x.toConnected)) := by
  refine h.setSession_fresh (h.sess _ _ hx).1 rfl (h.sess _ _ hx).2.2.2.2 ?_
  intro r f hf
  refine h.no_fetch_of_not_connected ?_ hf
  intro y hy; rw [hx] at hy; cases hy; simp [Session.isConnected, hst]

theorem refsAnn_inv {c : Cfg} {s s' : State} {rid : Rid} {n : Nid} {v : Nat}
    (h : Inv c s) (hd : refsAnn c s rid n v = .ok s') : Inv c s' := by
  unfold refsAnn at hd
  split at hd
  · cases hd; exact h
  · rename_i x hx
    split at hd
    · cases hd; exact h
    · rename_i hst; exact fetchRefsAt_inv (refsAnn_mid_inv h hx hst) hd
    · exact fetchRefsAt_inv h hd

theorem refsAnn_ok {c : Cfg} {s : State} (h : Inv c s) (rid : Rid) (n : Nid) (v : Nat) :
    ∃ s', refsAnn c s rid n v = .ok s' := by
  unfold refsAnn
  split
  · exact ⟨_, rfl⟩
  · rename_i x hx
    split
    · exact ⟨_, rfl⟩
    · rename_i hst; exact fetchRefsAt_ok (refsAnn_mid_inv h hx hst) _ _ _ _
    · exact fetchRefsAt_ok h _ _ _ _

theorem redial_inv {c : Cfg} {s : State} (h : Inv c s) :
    Inv c { s with sessions := redial c s.sessions } := by
  have keep : ∀ m x, s.sessions m = some x → x.isConnected = true → redial c s.sessions m = some x := by
    intro m x hx hc
    unfold redial; rw [hx]
    unfold Session.isConnected at hc
    split at hc
    · rename_i hst; simp [hst]
    · cases hc
  refine ⟨?_, ?_, ?_⟩
  · intro m y hy
    show SessOK c s.fetching m y
    simp only [redial] at hy
    split at hy
    · rename_i x hx
      split at hy
      · rename_i hst
        split at hy
        · cases hy
          exact SessOK.of_fset_nil (h.sess _ _ hx).1 rfl (h.sess _ _ hx).2.2.2.2
        · cases hy; exact h.sess _ _ hx
      · cases hy; exact h.sess _ _ hx
    · cases hy
  · intro r f hf
    obtain ⟨y, hy, hc⟩ := h.conn r f hf
    exact ⟨y, keep _ _ hy hc, hc⟩
  · intro r f hf
    obtain ⟨y, hy, hr⟩ := h.conv r f hf
    exact ⟨y, keep _ _ hy (connected_of_mem_fset hr), hr⟩

theorem invAnn_inv {c : Cfg} {s s' : State} {rid : Rid} {n : Nid}
    (h : Inv c s) (hd : invAnn c s rid n = .ok s') : Inv c s' := by
  unfold invAnn at hd
  split at hd
  · cases hd; exact h
  · rename_i x hx
    split at hd
    · cases hd; exact h
    · rename_i hst; exact fetch_inv (refsAnn_mid_inv h hx hst) hd
    · exact fetch_inv h hd

theorem invAnn_ok {c : Cfg} {s : State} (h : Inv c s) (rid : Rid) (n : Nid) :
    ∃ s', invAnn c s rid n = .ok s' := by
  unfold invAnn
  split
  · exact ⟨_, rfl⟩
  · rename_i x hx
    split
    · exact ⟨_, rfl⟩
    · rename_i hst; exact fetch_ok (refsAnn_mid_inv h hx hst) _ _ _ _
    · exact fetch_ok h _ _ _ _

theorem fetchAll_inv {c : Cfg} {s s' : State} {plan : List (Rid × Nid)} (h : Inv c s)
    (hd : fetchAll c s plan = .ok s') : Inv c s' := by
  induction plan generalizing s with
  | nil => simp only [fetchAll] at hd; cases hd; exact h
  | cons p ps ih =>
    obtain ⟨rid, n⟩ := p
    simp only [fetchAll] at hd
    split at hd
    · rename_i s1 h1; exact ih (fetch_inv h h1) hd
    · cases hd

theorem fetchAll_ok {c : Cfg} {s : State} (h : Inv c s) (plan : List (Rid × Nid)) :
    ∃ s', fetchAll c s plan = .ok s' := by
  induction plan generalizing s with
  | nil => exact ⟨s, rfl⟩
  | cons p ps ih =>
    obtain ⟨rid, n⟩ := p
    obtain ⟨s1, h1⟩ := fetch_ok h rid n 0 false
    simp only [fetchAll, h1]
    exact ih (fetch_inv h h1)

theorem wake_inv {c : Cfg} {s s' : State} {perm : List Nid} {plan : List (Rid × Nid)}
    (h : Inv c s) (hd : wake c s perm plan = .ok s') : Inv c s' := by
  unfold wake at hd
  split at hd
  · cases hd
  · rename_i s1 h1
    split at hd
    · cases hd
    · rename_i s2 h2; cases hd
      exact redial_inv (fetchAll_inv (dequeueFetches_inv h h1) h2)

theorem wake_err {c : Cfg} {s : State} {perm : List Nid} {plan : List (Rid × Nid)} {e : Err}
    (h : Inv c s) (hd : wake c s perm plan = .error e) : e = .badPerm := by
  unfold wake at hd
  split at hd
  · rename_i e1 h1; cases hd; exact dequeueFetches_err h h1
  · rename_i s1 h1
    split at hd
    · rename_i e2 h2
      obtain ⟨s2, h2'⟩ := fetchAll_ok (dequeueFetches_inv h h1) plan
      rw [h2'] at h2; cases h2
    · cases hd

theorem result_inv {c : Cfg} {s s' : State} {fid : Nat} {perm : List Nid}
    (h : Inv c s) (hd : result c s fid perm = .ok s') : Inv c s' := by
  unfold result at hd
  split at hd
  · cases hd; exact h
  · split at hd
    · simp only at hd
      refine fetched_inv ?_ hd
      exact h.congr rfl rfl
    · cases hd; exact h.congr rfl rfl

theorem result_err {c : Cfg} {s : State} {fid : Nat} {perm : List Nid} {e : Err}
    (h : Inv c s) (hd : result c s fid perm = .error e) : e = .badPerm := by
  unfold result at hd
  split at hd
  · cases hd
  · split at hd
    · simp only at hd
      refine fetched_err ?_ hd
      exact h.congr rfl rfl
    · cases hd

/-! ### one event, all events -/

theorem step_inv {c : Cfg} {s s' : State} {op : Op} (h : Inv c s)
    (hs : step c s op = .ok s') : Inv c s' := by
  have h0 : Inv c { s with emits := [] } := h.congr rfl rfl
  unfold step at hs
  cases op with
  | connIn n => cases hs; exact connected_inv h0
  | connOut n => cases hs; exact connected_inv h0
  | dial n => cases hs; exact dial_inv h0
  | disc n l perm => exact disconnected_inv h0 hs
  | fetchCmd rid n => exact fetch_inv h0 hs
  | refsAnn rid n v => exact refsAnn_inv h0 hs
  | invAnn rid n => exact invAnn_inv h0 hs
  | result fid ok perm => exact result_inv h0 hs
  | wake perm plan => exact wake_inv h0 hs

/-- An event never panics in a state satisfying the invariant; it can only be rejected because its
`perm` names a node without session. -/
theorem step_err {c : Cfg} {s : State} {op : Op} {e : Err} (h : Inv c s)
    (hs : step c s op = .error e) : e = .badPerm := by
  have h0 : Inv c { s with emits := [] } := h.congr rfl rfl
  unfold step at hs
  cases op with
  | connIn n => cases hs
  | connOut n => cases hs
  | dial n => cases hs
  | disc n l perm => exact disconnected_err h0 hs
  | fetchCmd rid n =>
    obtain ⟨s', h'⟩ := fetch_ok h0 rid n 0 true
    simp only at hs; rw [h'] at hs; cases hs
  | refsAnn rid n v =>
    obtain ⟨s', h'⟩ := refsAnn_ok h0 rid n v
    simp only at hs; rw [h'] at hs; cases hs
  | invAnn rid n =>
    obtain ⟨s', h'⟩ := invAnn_ok h0 rid n
    simp only at hs; rw [h'] at hs; cases hs
  | result fid ok perm => exact result_err h0 hs
  | wake perm plan => exact wake_err h0 hs

theorem runFrom_inv {c : Cfg} {s s' : State} {ops : List Op} (h : Inv c s)
    (hr : runFrom c s ops = .ok s') : Inv c s' := by
  induction ops generalizing s with
  | nil => simp only [runFrom] at hr; cases hr; exact h
  | cons op ops ih =>
    simp only [runFrom] at hr
    split at hr
    · rename_i s1 h1; exact ih (step_inv h h1) hr
    · cases hr

theorem runFrom_err {c : Cfg} {s : State} {ops : List Op} {e : Err} (h : Inv c s)
    (hr : runFrom c s ops = .error e) : e = .badPerm := by
  induction ops generalizing s with
  | nil => simp [runFrom] at hr
  | cons op ops ih =>
    simp only [runFrom] at hr
    split at hr
    · rename_i s1 h1; exact ih (step_inv h h1) hr
    · rename_i e1 h1; cases hr; exact step_err h h1

/-- Every reachable state satisfies the invariant. -/
theorem run_inv {c : Cfg} {ops : List Op} {s : State} (hr : run c ops = .ok s) : Inv c s :=
  runFrom_inv (init_inv c) hr

/-! ## The property theorems -/

/-- **no_panic.** No sequence of events, under any configuration and any shuffle orders, reaches the
`assert!` of `Session::fetching` ("Session must not already be fetching"; equivalently the
`debug_assert!` of `try_fetch`) or the `assert_eq!` of `Session::queue_fetch`. (A run can only be
rejected as `badPerm`: a `perm` that `Sessions::shuffled()` cannot produce.) -/
theorem no_panic (c : Cfg) (ops : List Op) (site : Site) : run c ops ≠ .error (.panic site) := by
  intro h
  have := runFrom_err (init_inv c) h
  cases this

/-- … and when every `perm` lists only nodes that have a session at that moment, an event is never
rejected either: the `unwrap` in `dequeue_fetches` is safe. -/
theorem dequeue_unwrap_safe {c : Cfg} {ops : List Op} {s : State} (hr : run c ops = .ok s) (perm : List Nid)
    (hp : ∀ n, n ∈ perm → (s.sessions n).isSome = true) : ∃ s', dequeueFetches c s perm = .ok s' :=
  dequeueFetches_ok (run_inv hr) hp

/-- **session_consistency.** In every reachable state, `Service.fetching[rid]` is a fetch from node `n`
**iff** the session of `n` is marked as fetching `rid`; and then that session is in connected state. -/
theorem session_consistency {c : Cfg} {ops : List Op} {s : State} (hr : run c ops = .ok s) :
    (∀ n rid, (∃ f, s.fetching rid = some f ∧ f.frm = n) ↔ (∃ x, s.sessions n = some x ∧ rid ∈ x.fset)) ∧
    (∀ rid f, s.fetching rid = some f → ∃ x, s.sessions f.frm = some x ∧ x.isConnected = true) := by
  have h := run_inv hr
  refine ⟨?_, h.conn⟩
  intro n rid
  constructor
  · rintro ⟨f, hf, hn⟩
    obtain ⟨x, hx, hm⟩ := h.conv rid f hf
    exact ⟨x, hn ▸ hx, hm⟩
  · rintro ⟨x, hx, hm⟩
    exact (h.sess n x hx).2.1 rid hm

/-- **one_fetch_per_repo.** In every reachable state a repository is in the fetching set of at most one
session (and `Service.fetching`, a map, holds at most one fetch per repository by construction; see also
`emitted_registered`). -/
theorem one_fetch_per_repo {c : Cfg} {ops : List Op} {s : State} (hr : run c ops = .ok s)
    {n m : Nid} {x y : Session} {rid : Rid} (hx : s.sessions n = some x) (hy : s.sessions m = some y)
    (h1 : rid ∈ x.fset) (h2 : rid ∈ y.fset) : n = m := by
  obtain ⟨f, hf, hn⟩ := ((session_consistency hr).1 n rid).mpr ⟨x, hx, h1⟩
  obtain ⟨g, hg, hm⟩ := ((session_consistency hr).1 m rid).mpr ⟨y, hy, h2⟩
  rw [hf] at hg; cases hg; exact hn.symm.trans hm

theorem length_le_of_nodup_subset {rs l : List Nat} (hn : rs.Nodup) (hs : ∀ r, r ∈ rs → r ∈ l) :
    rs.length ≤ l.length := by
  induction rs generalizing l with
  | nil => simp
  | cons a t ih =>
    have ha : a ∈ l := hs a List.mem_cons_self
    obtain ⟨hat, ht⟩ := List.nodup_cons.mp hn
    have : t.length ≤ (l.erase a).length := by
      refine ih ht ?_
      intro r hr
      have hne : r ≠ a := by intro e; exact hat (e ▸ hr)
      exact (List.mem_erase_of_ne hne).mpr (hs r (List.mem_cons_of_mem _ hr))
    rw [List.length_erase_of_mem ha] at this
    have hpos : 0 < l.length := List.length_pos_of_mem ha
    simp only [List.length_cons]
    omega

/-- **capacity_respected.** In every reachable state every session fetches at most `fetch_concurrency`
distinct repositories and queues at most `MAX_FETCH_QUEUE_SIZE = 128` fetches; and at most
`fetch_concurrency` fetches are registered in `Service.fetching` for any one node. -/
theorem capacity_respected {c : Cfg} {ops : List Op} {s : State} (hr : run c ops = .ok s) :
    (∀ n x, s.sessions n = some x →
      x.fset.Nodup ∧ x.fset.length ≤ c.conc ∧ x.queue.length ≤ 128) ∧
    (∀ n (rids : List Rid), rids.Nodup → (∀ rid, rid ∈ rids → ∃ f, s.fetching rid = some f ∧ f.frm = n) →
      rids.length ≤ c.conc) := by
  have h := run_inv hr
  refine ⟨?_, ?_⟩
  · intro n x hx
    obtain ⟨_, _, h3, h4, h5⟩ := h.sess n x hx
    exact ⟨h3, h4, h5⟩
  · intro n rids hnd hall
    cases rids with
    | nil => simp
    | cons a t =>
      obtain ⟨x, hx, _⟩ := ((session_consistency hr).1 n a).mp (hall a List.mem_cons_self)
      have hsub : ∀ r, r ∈ a :: t → r ∈ x.fset := by
        intro r hr'
        obtain ⟨y, hy, hm⟩ := ((session_consistency hr).1 n r).mp (hall r hr')
        rw [hx] at hy; cases hy; exact hm
      exact Nat.le_trans (length_le_of_nodup_subset hnd hsub) (h.sess n x hx).2.2.2.1

def cfg1 : Cfg := { conc := 1, persist := [], want := fun v => v, wireFilter := false }

/-- The schedule `i1 c1.1 i1 c2.1` (witness of the defect repaired by `fix: fail a peer's ongoing fetches
when its session is reset by a new connection`): peer 1 connects, repository 1 is fetched from it,
`connected` is delivered again for peer 1, repository 2 is fetched from it. In the current code the
reset fails the fetch of repository 1; before the repair it stayed registered and two fetches from peer 1
were in flight with `fetch_concurrency = 1`. -/
def resetSchedule : List Op := [.connIn 1, .fetchCmd 1 1, .connIn 1, .fetchCmd 2 1]

example : ∃ s g x, run cfg1 resetSchedule = .ok s ∧ s.fetching 1 = none ∧
    s.fetching 2 = some g ∧ g.frm = 1 ∧ s.sessions 1 = some x ∧ x.fset = [2] :=
  ⟨_, _, _, rfl, rfl, rfl, rfl, rfl, rfl⟩

/-! ### attribution of results -/

/-- The schedule `i1 c1.1 xi1 i1 c1.1 r1`: fetch #1 of repository 1 from node 1; node 1 disconnects
and reconnects; fetch #2 of repository 1 from node 1; the (late) result of fetch #1 arrives. -/
def staleSamePeer : List Op :=
  [.connIn 1, .fetchCmd 1 1, .disc 1 .inbound [], .connIn 1, .fetchCmd 1 1, .result 1 false [1]]

/-- **result_attributed_counterexample.** The full statement — *a result only ever completes the
`fetching` entry created for the same fetch*, i.e. `∀ c ops s, run c ops = .ok s → s.misattributed = false` —
is false of the current code: the result of fetch #1 completes fetch #2. -/
theorem result_attributed_counterexample :
    (match run cfg1 staleSamePeer with
      | .ok s => s.misattributed && (s.fetching 1).isNone
      | .error _ => false) = true := by
  decide

/-- In that run no fetch was started for a *different* node while the result was outstanding: the
repair `from == remote` of `Service::fetched` cannot catch it, only a per-fetch token could. -/
theorem result_attributed_counterexample_refetched :
    ∃ s, run cfg1 staleSamePeer = .ok s ∧ s.misattributed = true ∧ s.refetched = true :=
  ⟨_, rfl, rfl, rfl⟩

/-- Ghost invariant: as long as no fetch of `(rid, nid)` was started while a result for `(rid, nid)` was
outstanding, no result was misattributed, and every outstanding result whose `(rid, nid)` matches the
registered fetch of `rid` *is* the result of that fetch. -/
def Attr (s : State) : Prop :=
  s.refetched = false →
    s.misattributed = false ∧
    ∀ p, p ∈ s.pending → ∀ f, s.fetching p.2.1 = some f → f.frm = p.2.2 → f.fid = p.1

/-- `s'` has the same ghost flags as `s`, and no more outstanding results or registered fetches. -/
structure Shrink (s s' : State) : Prop where
  refetched : s'.refetched = s.refetched
  misattributed : s'.misattributed = s.misattributed
  pending : ∀ p, p ∈ s'.pending → p ∈ s.pending
  fetching : ∀ r f, s'.fetching r = some f → s.fetching r = some f

theorem Shrink.refl (s : State) : Shrink s s := ⟨rfl, rfl, fun _ h => h, fun _ _ h => h⟩

theorem Attr.shrink {s s' : State} (h : Attr s) (hs : Shrink s s') : Attr s' := by
  intro hr
  rw [hs.refetched] at hr
  obtain ⟨h1, h2⟩ := h hr
  refine ⟨hs.misattributed.trans h1, ?_⟩
  intro p hp f hf hfr
  exact h2 p (hs.pending p hp) f (hs.fetching _ _ hf) hfr

theorem shrink_setSession (s : State) (n : Nid) (x : Option Session) : Shrink s (setSession s n x) :=
  ⟨rfl, rfl, fun _ h => h, fun _ _ h => h⟩

theorem tryFetch_attr {c : Cfg} {s s' : State} {rid : Rid} {frm : Nid} {refs : Nat} {r : TryFetch}
    (h : Attr s) (ht : tryFetch c s rid frm refs = .ok (s', r)) : Attr s' := by
  unfold tryFetch at ht
  split at ht
  · cases ht; exact h
  · split at ht
    · cases ht; exact h
    · rename_i hv
      split at ht
      · split at ht
        · cases ht; exact h
        · split at ht
          · cases ht
          · cases ht
            intro hr
            simp only [Bool.or_eq_false_iff] at hr
            obtain ⟨h1, h2⟩ := h hr.1
            refine ⟨h1, ?_⟩
            intro p hp f hf hfr
            simp only [List.mem_append, List.mem_singleton] at hp
            simp only [upd_eq] at hf
            rcases hp with hp | hp
            · split at hf
              · rename_i he
                cases hf
                -- an older outstanding result for the same (rid, frm): excluded by `refetched = false`
                exfalso
                have := hr.2
                rw [List.any_eq_false] at this
                have := this p hp
                simp only [Bool.and_eq_true, beq_iff_eq, not_and] at this
                exact this he hfr.symm
              · exact h2 p hp f hf hfr
            · subst hp
              simp only [if_true] at hf
              cases hf; rfl
      · cases ht; exact h

theorem queueFetch_attr {s s' : State} {q : QFetch} (h : Attr s) (hq : queueFetch s q = .ok s') : Attr s' := by
  unfold queueFetch at hq
  split at hq
  · cases hq; exact h
  · split at hq
    · cases hq
    · split at hq
      · cases hq; exact h
      · split at hq
        · cases hq; exact h
        · cases hq; exact h.shrink (shrink_setSession _ _ _)

theorem fetch_attr {c : Cfg} {s s' : State} {rid : Rid} {frm : Nid} {refs : Nat} {chan : Bool}
    (h : Attr s) (hf : fetch c s rid frm refs chan = .ok s') : Attr s' := by
  unfold fetch at hf
  split at hf
  · cases hf
  · rename_i s1 ht; cases hf; exact tryFetch_attr h ht
  · rename_i s1 f ht
    split at hf
    · cases hf; exact tryFetch_attr h ht
    · exact queueFetch_attr (tryFetch_attr h ht) hf
  · rename_i s1 ht; exact queueFetch_attr (tryFetch_attr h ht) hf
  · rename_i s1 ht; cases hf; exact tryFetch_attr h ht

theorem fetchRefsAt_attr {c : Cfg} {s s' : State} {rid : Rid} {frm : Nid} {refs : Nat} {chan : Bool}
    (h : Attr s) (hf : fetchRefsAt c s rid frm refs chan = .ok s') : Attr s' := by
  unfold fetchRefsAt at hf
  split at hf
  · cases hf; exact h
  · exact fetch_attr h hf

theorem dequeueOne_attr {c : Cfg} {s s' : State} {n : Nid} (h : Attr s)
    (hd : dequeueOne c s n = .ok s') : Attr s' := by
  unfold dequeueOne at hd
  split at hd
  · cases hd
  · split at hd
    · cases hd; exact h
    · split at hd
      · cases hd; exact h
      · simp only at hd
        split at hd
        · exact fetch_attr (h.shrink (shrink_setSession _ _ _)) hd
        · exact fetchRefsAt_attr (h.shrink (shrink_setSession _ _ _)) hd

theorem dequeueFetches_attr {c : Cfg} {s s' : State} {perm : List Nid} (h : Attr s)
    (hd : dequeueFetches c s perm = .ok s') : Attr s' := by
  induction perm generalizing s with
  | nil => simp only [dequeueFetches] at hd; cases hd; exact h
  | cons n ns ih =>
    simp only [dequeueFetches] at hd
    split at hd
    · rename_i s1 h1; exact ih (dequeueOne_attr h h1) hd
    · cases hd

theorem fetched_attr {c : Cfg} {s s' : State} {rid : Rid} {n : Nid} {perm : List Nid}
    (h : Attr s) (hf : fetched c s rid n perm = .ok s') : Attr s' := by
  unfold fetched at hf
  split at hf
  · cases hf; exact h
  · split at hf
    · refine dequeueFetches_attr (h.shrink ?_) hf
      have hsh : Shrink s { s with fetching := upd s.fetching rid none } := by
        refine ⟨rfl, rfl, fun _ h => h, ?_⟩
        intro r f hf
        simp only [upd_eq] at hf
        split at hf
        · cases hf
        · exact hf
      simp only
      split
      · exact ⟨hsh.refetched, hsh.misattributed, hsh.pending, hsh.fetching⟩
      · exact hsh
    · cases hf; exact h

theorem resetSession_attr {s : State} {n : Nid} {x : Session} (h : Attr s) : Attr (resetSession s n x) := by
  unfold resetSession
  refine h.shrink ?_
  split
  · exact ⟨rfl, rfl, fun _ h => h, fun r f hf => (dropFrom_some.mp hf).1⟩
  · exact shrink_setSession _ _ _

theorem connected_attr {s : State} {n : Nid} {link : Link} (h : Attr s) : Attr (connected s n link) := by
  unfold connected
  split
  · exact resetSession_attr h
  · exact h
  · exact resetSession_attr h
  · exact h.shrink (shrink_setSession _ _ _)

theorem dial_attr {s : State} {n : Nid} (h : Attr s) : Attr (dial s n) := by
  unfold dial
  split
  · exact h
  · exact h.shrink (shrink_setSession _ _ _)

theorem disconnected_attr {c : Cfg} {s s' : State} {n : Nid} {link : Link} {perm : List Nid}
    (h : Attr s) (hd : disconnected c s n link perm = .ok s') : Attr s' := by
  unfold disconnected at hd
  split at hd
  · cases hd; exact h
  · split at hd
    · cases hd; exact h
    · refine dequeueFetches_attr (h.shrink ?_) hd
      have hsh : Shrink s { s with fetching := dropFrom s.fetching n } :=
        ⟨rfl, rfl, fun _ h => h, fun r f hf => (dropFrom_some.mp hf).1⟩
      split
      · exact ⟨hsh.refetched, hsh.misattributed, hsh.pending, hsh.fetching⟩
      · exact ⟨hsh.refetched, hsh.misattributed, hsh.pending, hsh.fetching⟩

theorem refsAnn_attr {c : Cfg} {s s' : State} {rid : Rid} {n : Nid} {v : Nat}
    (h : Attr s) (hd : refsAnn c s rid n v = .ok s') : Attr s' := by
  unfold refsAnn at hd
  split at hd
  · cases hd; exact h
  · split at hd
    · cases hd; exact h
    · exact fetchRefsAt_attr (h.shrink (shrink_setSession _ _ _)) hd
    · exact fetchRefsAt_attr h hd

theorem invAnn_attr {c : Cfg} {s s' : State} {rid : Rid} {n : Nid}
    (h : Attr s) (hd : invAnn c s rid n = .ok s') : Attr s' := by
  unfold invAnn at hd
  split at hd
  · cases hd; exact h
  · split at hd
    · cases hd; exact h
    · exact fetch_attr (h.shrink (shrink_setSession _ _ _)) hd
    · exact fetch_attr h hd

theorem fetchAll_attr {c : Cfg} {s s' : State} {plan : List (Rid × Nid)} (h : Attr s)
    (hd : fetchAll c s plan = .ok s') : Attr s' := by
  induction plan generalizing s with
  | nil => simp only [fetchAll] at hd; cases hd; exact h
  | cons p ps ih =>
    obtain ⟨rid, n⟩ := p
    simp only [fetchAll] at hd
    split at hd
    · rename_i s1 h1; exact ih (fetch_attr h h1) hd
    · cases hd

theorem wake_attr {c : Cfg} {s s' : State} {perm : List Nid} {plan : List (Rid × Nid)}
    (h : Attr s) (hd : wake c s perm plan = .ok s') : Attr s' := by
  unfold wake at hd
  split at hd
  · cases hd
  · rename_i s1 h1
    split at hd
    · cases hd
    · rename_i s2 h2; cases hd
      exact (fetchAll_attr (dequeueFetches_attr h h1) h2).shrink ⟨rfl, rfl, fun _ h => h, fun _ _ h => h⟩

theorem mem_of_findPending {s : State} {fid : Nat} {p : Nat × Rid × Nid} (h : findPending s fid = some p) :
    p ∈ s.pending ∧ p.1 = fid := by
  unfold findPending at h
  exact ⟨List.mem_of_find?_eq_some h, by simpa using List.find?_some h⟩

theorem result_attr {c : Cfg} {s s' : State} {fid : Nat} {perm : List Nid}
    (h : Attr s) (hd : result c s fid perm = .ok s') : Attr s' := by
  unfold result at hd
  split at hd
  · cases hd; exact h
  · rename_i fid' rid n hfp
    obtain ⟨hmem, hfid⟩ := mem_of_findPending hfp
    simp only at hfid
    split at hd
    · simp only at hd
      refine fetched_attr ?_ hd
      intro hr
      obtain ⟨h1, h2⟩ := h hr
      have hstale : (match s.fetching rid with
          | some f => f.frm == n && f.fid != fid
          | none => false) = false := by
        split
        · rename_i f hf
          by_cases he : f.frm = n
          · have := h2 _ hmem f hf he
            simp only at this
            simp [he, this, hfid]
          · simp [he]
        · rfl
      refine ⟨by simp only [h1, Bool.false_or]; exact hstale, ?_⟩
      intro p hp f hf hfr
      exact h2 p (List.mem_filter.mp hp).1 f hf hfr
    · cases hd
      exact h.shrink ⟨rfl, rfl, fun p hp => (List.mem_filter.mp hp).1, fun _ _ h => h⟩

theorem step_attr {c : Cfg} {s s' : State} {op : Op} (h : Attr s) (hs : step c s op = .ok s') : Attr s' := by
  have h0 : Attr { s with emits := [] } := h.shrink ⟨rfl, rfl, fun _ h => h, fun _ _ h => h⟩
  unfold step at hs
  cases op with
  | connIn n => cases hs; exact connected_attr h0
  | connOut n => cases hs; exact connected_attr h0
  | dial n => cases hs; exact dial_attr h0
  | disc n l perm => exact disconnected_attr h0 hs
  | fetchCmd rid n => exact fetch_attr h0 hs
  | refsAnn rid n v => exact refsAnn_attr h0 hs
  | invAnn rid n => exact invAnn_attr h0 hs
  | result fid ok perm => exact result_attr h0 hs
  | wake perm plan => exact wake_attr h0 hs

theorem runFrom_attr {c : Cfg} {s s' : State} {ops : List Op} (h : Attr s)
    (hr : runFrom c s ops = .ok s') : Attr s' := by
  induction ops generalizing s with
  | nil => simp only [runFrom] at hr; cases hr; exact h
  | cons op ops ih =>
    simp only [runFrom] at hr
    split at hr
    · rename_i s1 h1; exact ih (step_attr h h1) hr
    · cases hr

/-- **result_attributed_partial.** In every run in which no fetch of a repository from a node was started
while a worker result for the same repository and node was still outstanding (`refetched = false`: e.g.
the node was never re-fetched after a reconnect before its old result arrived), every delivered result
completed only the `fetching` entry created for its own fetch — whatever else happened: disconnects,
reconnects, re-fetching the repository from *other* nodes, session resets, late and unexpected results. -/
theorem result_attributed_partial {c : Cfg} {ops : List Op} {s : State} (hr : run c ops = .ok s)
    (hno : s.refetched = false) : s.misattributed = false :=
  (runFrom_attr (s := init c) (by intro _; exact ⟨rfl, by intro p hp; cases hp⟩) hr hno).1

/-- Non-vacuity, and the witness of the defect repaired by `fix: ignore fetch results that don't belong
to the ongoing fetch`: repository 1 is fetched from node 1 and queued for node 2; node 1 disconnects,
the fetch from node 2 starts; node 1 reconnects and its stale result arrives — and is ignored. -/
def staleOtherPeer : List Op :=
  [.connIn 1, .connIn 2, .fetchCmd 1 1, .fetchCmd 1 2, .disc 1 .inbound [2], .connIn 1,
   .result 1 false [1, 2]]

example : ∃ s f, run cfg1 staleOtherPeer = .ok s ∧ s.refetched = false ∧ s.misattributed = false ∧
    s.fetching 1 = some f ∧ f.frm = 2 ∧ f.fid = 2 := ⟨_, _, rfl, rfl, rfl, rfl, rfl, rfl⟩

/-! ### `Io::Fetch` is emitted exactly when a fetch is registered -/

/-- Every `Io::Fetch` emitted during the current event stands for the registered fetch of its repository. -/
def EmitOK (s : State) : Prop :=
  ∀ e, e ∈ s.emits → s.fetching e.rid = some ⟨e.nid, e.refs, e.fid⟩

theorem tryFetch_emit {c : Cfg} {s s' : State} {rid : Rid} {frm : Nid} {refs : Nat} {r : TryFetch}
    (h : EmitOK s) (ht : tryFetch c s rid frm refs = .ok (s', r)) : EmitOK s' := by
  unfold tryFetch at ht
  split at ht
  · cases ht; exact h
  · split at ht
    · cases ht; exact h
    · rename_i hv
      split at ht
      · split at ht
        · cases ht; exact h
        · split at ht
          · cases ht
          · cases ht
            intro e he
            simp only [List.mem_append, List.mem_singleton] at he
            rcases he with he | he
            · have := h e he
              have hne : e.rid ≠ rid := by intro e'; rw [e', hv] at this; cases this
              simp only [upd_eq, hne, if_false]; exact this
            · subst he; simp [upd_eq]
      · cases ht; exact h

/-- A fetch is started (and its `Io::Fetch` emitted) only for a repository that had no registered fetch. -/
theorem tryFetch_started_vacant {c : Cfg} {s s' : State} {rid : Rid} {frm : Nid} {refs : Nat}
    (ht : tryFetch c s rid frm refs = .ok (s', .started)) :
    s.fetching rid = none ∧ s'.fetching rid = some ⟨frm, refs, s.nextFid⟩ ∧
    s'.emits = s.emits ++ [⟨rid, frm, refs, s.nextFid⟩] := by
  unfold tryFetch at ht
  split at ht
  · cases ht
  · split at ht
    · cases ht
    · rename_i hv
      split at ht
      · split at ht
        · cases ht
        · split at ht
          · cases ht
          · cases ht; exact ⟨hv, by simp [upd_eq], rfl⟩
      · cases ht

theorem emitOK_setSession {s : State} (h : EmitOK s) (n : Nid) (x : Option Session) :
    EmitOK (setSession s n x) := h

theorem queueFetch_emit {s s' : State} {q : QFetch} (h : EmitOK s) (hq : queueFetch s q = .ok s') :
    EmitOK s' := by
  unfold queueFetch at hq
  split at hq
  · cases hq; exact h
  · split at hq
    · cases hq
    · split at hq
      · cases hq; exact h
      · split at hq
        · cases hq; exact h
        · cases hq; exact h

theorem fetch_emit {c : Cfg} {s s' : State} {rid : Rid} {frm : Nid} {refs : Nat} {chan : Bool}
    (h : EmitOK s) (hf : fetch c s rid frm refs chan = .ok s') : EmitOK s' := by
  unfold fetch at hf
  split at hf
  · cases hf
  · rename_i s1 ht; cases hf; exact tryFetch_emit h ht
  · rename_i s1 f ht
    split at hf
    · cases hf; exact tryFetch_emit h ht
    · exact queueFetch_emit (tryFetch_emit h ht) hf
  · rename_i s1 ht; exact queueFetch_emit (tryFetch_emit h ht) hf
  · rename_i s1 ht; cases hf; exact tryFetch_emit h ht

theorem fetchRefsAt_emit {c : Cfg} {s s' : State} {rid : Rid} {frm : Nid} {refs : Nat} {chan : Bool}
    (h : EmitOK s) (hf : fetchRefsAt c s rid frm refs chan = .ok s') : EmitOK s' := by
  unfold fetchRefsAt at hf
  split at hf
  · cases hf; exact h
  · exact fetch_emit h hf

theorem dequeueOne_emit {c : Cfg} {s s' : State} {n : Nid} (h : EmitOK s)
    (hd : dequeueOne c s n = .ok s') : EmitOK s' := by
  unfold dequeueOne at hd
  split at hd
  · cases hd
  · split at hd
    · cases hd; exact h
    · split at hd
      · cases hd; exact h
      · simp only at hd
        split at hd
        · exact fetch_emit (emitOK_setSession h _ _) hd
        · exact fetchRefsAt_emit (emitOK_setSession h _ _) hd

theorem dequeueFetches_emit {c : Cfg} {s s' : State} {perm : List Nid} (h : EmitOK s)
    (hd : dequeueFetches c s perm = .ok s') : EmitOK s' := by
  induction perm generalizing s with
  | nil => simp only [dequeueFetches] at hd; cases hd; exact h
  | cons n ns ih =>
    simp only [dequeueFetches] at hd
    split at hd
    · rename_i s1 h1; exact ih (dequeueOne_emit h h1) hd
    · cases hd

theorem fetchAll_emit {c : Cfg} {s s' : State} {plan : List (Rid × Nid)} (h : EmitOK s)
    (hd : fetchAll c s plan = .ok s') : EmitOK s' := by
  induction plan generalizing s with
  | nil => simp only [fetchAll] at hd; cases hd; exact h
  | cons p ps ih =>
    obtain ⟨rid, n⟩ := p
    simp only [fetchAll] at hd
    split at hd
    · rename_i s1 h1; exact ih (fetch_emit h h1) hd
    · cases hd

theorem emitOK_of_nil {s : State} (h : s.emits = []) : EmitOK s := by
  intro e he; rw [h] at he; cases he

/-- **emitted_registered** (the `Io::Fetch` side of `one_fetch_per_repo`). After any event, from any
state whatsoever, every `Io::Fetch` the event emitted is the registered fetch of its repository: a fetch
is never emitted for a repository whose previous fetch is still registered, and nothing emitted during
an event is dropped again within it. -/
theorem emitted_registered {c : Cfg} {s s' : State} {op : Op} (hs : step c s op = .ok s') : EmitOK s' := by
  unfold step at hs
  cases op with
  | connIn n =>
    cases hs; apply emitOK_of_nil
    simp only [connected, resetSession]; split <;> (try split) <;> rfl
  | connOut n =>
    cases hs; apply emitOK_of_nil
    simp only [connected, resetSession]; split <;> (try split) <;> rfl
  | dial n =>
    cases hs; apply emitOK_of_nil
    simp only [dial]; split <;> rfl
  | disc n l perm =>
    simp only [disconnected] at hs
    split at hs
    · cases hs; exact emitOK_of_nil rfl
    · split at hs
      · cases hs; exact emitOK_of_nil rfl
      · refine dequeueFetches_emit (emitOK_of_nil ?_) hs
        split <;> rfl
  | fetchCmd rid n => exact fetch_emit (emitOK_of_nil rfl) hs
  | refsAnn rid n v =>
    simp only [refsAnn] at hs
    split at hs
    · cases hs; exact emitOK_of_nil rfl
    · split at hs
      · cases hs; exact emitOK_of_nil rfl
      · exact fetchRefsAt_emit (emitOK_of_nil rfl) hs
      · exact fetchRefsAt_emit (emitOK_of_nil rfl) hs
  | invAnn rid n =>
    simp only [invAnn] at hs
    split at hs
    · cases hs; exact emitOK_of_nil rfl
    · split at hs
      · cases hs; exact emitOK_of_nil rfl
      · exact fetch_emit (emitOK_of_nil rfl) hs
      · exact fetch_emit (emitOK_of_nil rfl) hs
  | result fid ok perm =>
    simp only [result] at hs
    split at hs
    · cases hs; exact emitOK_of_nil rfl
    · split at hs
      · simp only [fetched] at hs
        split at hs
        · cases hs; exact emitOK_of_nil rfl
        · split at hs
          · refine dequeueFetches_emit (emitOK_of_nil ?_) hs
            split <;> rfl
          · cases hs; exact emitOK_of_nil rfl
      · cases hs; exact emitOK_of_nil rfl
  | wake perm plan =>
    simp only [wake] at hs
    split at hs
    · cases hs
    · rename_i s1 h1
      split at hs
      · cases hs
      · rename_i s2 h2
        cases hs
        have h3 : EmitOK s2 := fetchAll_emit (dequeueFetches_emit (emitOK_of_nil rfl) h1) h2
        exact h3

/-! ### non-vacuity -/

/-- A reachable state with a fetch in flight, a queued fetch, a stale result outstanding and a
disconnected persistent peer: the hypotheses of the theorems above are satisfiable non-trivially. -/
def cfg2 : Cfg := { conc := 2, persist := [3], want := fun v => if v = 3 then 0 else v, wireFilter := true }

def demo : List Op :=
  [.connIn 1, .dial 2, .connOut 2, .connOut 3, .fetchCmd 1 1, .refsAnn 1 2 1, .refsAnn 2 2 2,
   .refsAnn 2 1 3, .disc 3 .outbound [1, 2], .disc 1 .inbound [2], .wake [3, 2] []]

example : ∃ s x f g, run cfg2 demo = .ok s ∧ s.sessions 2 = some x ∧ x.fset = [1, 2] ∧ x.queue = [] ∧
    s.fetching 1 = some f ∧ f.frm = 2 ∧ f.fid = 3 ∧ s.fetching 2 = some g ∧ g.frm = 2 ∧
    s.pending.length = 3 ∧ s.sessions 1 = none ∧ (s.sessions 3).map (·.st) = some .attempted :=
  ⟨_, _, _, _, rfl, rfl, rfl, rfl, rfl, rfl, rfl, rfl, rfl, rfl, rfl, rfl⟩

/-- Inventory-announcement fetches, the sync task of `wake` (`fetch_missing_repositories`) and a worker
result that `Wire` does not forward (its node has no session any more), with `wireFilter = true`. -/
def demo2 : List Op :=
  [.connIn 1, .connIn 2, .invAnn 1 1, .invAnn 1 2, .disc 1 .inbound [2], .result 1 false [2],
   .wake [2] [(2, 2)]]

example : ∃ s f g, run cfg2 demo2 = .ok s ∧ s.fetching 1 = some f ∧ f.frm = 2 ∧ f.fid = 2 ∧
    s.fetching 2 = some g ∧ g.frm = 2 ∧ g.fid = 3 ∧ s.pending = [(2, 1, 2), (3, 2, 2)] ∧
    s.misattributed = false ∧ s.sessions 1 = none :=
  ⟨_, _, _, rfl, rfl, rfl, rfl, rfl, rfl, rfl, rfl, rfl, rfl⟩

end HeartwoodModel.FetchSched
