//! C16 harness (stub: not implemented yet).
fn main() {
    eprintln!("C16: harness not implemented");
    std::process::exit(3);
}
