import HeartwoodModel.Driver.Loop
import HeartwoodModel.Driver.C17
def main : IO Unit := HeartwoodModel.Driver.driverMain "C17" HeartwoodModel.Driver.C17.run
