/-! Driver entry for property C02 (stub: not implemented yet). -/
namespace HeartwoodModel.Driver.C02

def run (_args : List String) : String := "unimplemented"

end HeartwoodModel.Driver.C02
