import HeartwoodModel.Lemmas.DagBuild
/-!
# `Dag::merge`

`MInv sf other P cur`: `cur` is `sf` plus the nodes of `other` whose key is in `P` (the keys
already popped from the work list), plus every edge of `other` with an end in `P` whose source node
already exists.
-/
set_option linter.unusedSimpArgs false
set_option linter.unusedVariables false
namespace HeartwoodModel.Dag
variable {V : Type}

structure MInv (sf other : Dag V) (P : List K) (cur : Dag V) : Prop where
  sorted : cur.Sorted
  trc : cur.TRC
  contains : ∀ x, cur.contains x = true ↔ sf.contains x = true ∨ (x ∈ P ∧ other.contains x = true)
  value : ∀ x, (cur.get x).map (·.value) =
    match sf.get x with
    | some n => some n.value
    | none => if x ∈ P then (other.get x).map (·.value) else none
  deps : ∀ x y, y ∈ cur.depsOf x ↔
    y ∈ sf.depsOf x ∨ (cur.contains x = true ∧ y ∈ other.depsOf x ∧ (x ∈ P ∨ y ∈ P))
  dependents : ∀ x y, y ∈ cur.dependentsOf x ↔
    y ∈ sf.dependentsOf x ∨ (cur.contains x = true ∧ y ∈ other.dependentsOf x ∧ (x ∈ P ∨ y ∈ P))

theorem MInv.init {sf other : Dag V} (h : sf.Wf) : MInv sf other [] sf := by
  refine ⟨h.toSorted, h.trc, by simp, ?_, by simp, by simp⟩
  intro x
  cases sf.get x <;> simp

theorem mergeStep_eq (s : Dag V) (k : K) (n : Node V) :
    s.mergeStep k n =
      (if s.contains k then s else s.node k n.value).addEdges
        (n.dependents.map (fun d => (d, k)) ++ n.deps.map (fun d => (k, d))) := by
  simp only [Dag.mergeStep, Dag.addEdges, List.foldl_append, List.foldl_map]

theorem MInv.skip {sf other : Dag V} {P : List K} {cur : Dag V} (hwo : other.Wf)
    (h : MInv sf other P cur) {k : K} (hk : other.get k = none) : MInv sf other (k :: P) cur := by
  have hkc : other.contains k = false := Dag.not_contains_iff.mpr hk
  have hdeps : ∀ x y, y ∈ other.depsOf x → x ≠ k ∧ y ≠ k := by
    intro x y hy
    have h1 := Dag.contains_of_mem_depsOf hy
    have h2 := Dag.contains_of_mem_dependentsOf ((hwo.sym y x).mpr hy)
    constructor
    · rintro rfl; rw [hkc] at h1; simp at h1
    · rintro rfl; rw [hkc] at h2; simp at h2
  refine ⟨h.sorted, h.trc, ?_, ?_, ?_, ?_⟩
  · intro x
    rw [h.contains]
    constructor
    · rintro (h1 | ⟨h1, h2⟩)
      · exact .inl h1
      · exact .inr ⟨List.mem_cons_of_mem _ h1, h2⟩
    · rintro (h1 | ⟨h1, h2⟩)
      · exact .inl h1
      · rcases List.mem_cons.mp h1 with rfl | h1
        · rw [hkc] at h2; simp at h2
        · exact .inr ⟨h1, h2⟩
  · intro x
    rw [h.value]
    cases sf.get x with
    | some n => rfl
    | none =>
      simp only
      by_cases hxk : x = k
      · subst hxk
        simp [hk]
      · simp [hxk]
  · intro x y
    rw [h.deps]
    constructor
    · rintro (h1 | ⟨h1, h2, h3⟩)
      · exact .inl h1
      · refine .inr ⟨h1, h2, ?_⟩
        rcases h3 with h3 | h3
        · exact .inl (List.mem_cons_of_mem _ h3)
        · exact .inr (List.mem_cons_of_mem _ h3)
    · rintro (h1 | ⟨h1, h2, h3⟩)
      · exact .inl h1
      · obtain ⟨hx, hy⟩ := hdeps x y h2
        refine .inr ⟨h1, h2, ?_⟩
        rcases h3 with h3 | h3
        · rcases List.mem_cons.mp h3 with e | e
          · exact absurd e hx
          · exact .inl e
        · rcases List.mem_cons.mp h3 with e | e
          · exact absurd e hy
          · exact .inr e
  · intro x y
    rw [h.dependents]
    have hd : ∀ x y, y ∈ other.dependentsOf x → x ≠ k ∧ y ≠ k := by
      intro x y hy
      have := hdeps y x ((hwo.sym x y).mp hy)
      exact ⟨this.2, this.1⟩
    constructor
    · rintro (h1 | ⟨h1, h2, h3⟩)
      · exact .inl h1
      · refine .inr ⟨h1, h2, ?_⟩
        rcases h3 with h3 | h3
        · exact .inl (List.mem_cons_of_mem _ h3)
        · exact .inr (List.mem_cons_of_mem _ h3)
    · rintro (h1 | ⟨h1, h2, h3⟩)
      · exact .inl h1
      · obtain ⟨hx, hy⟩ := hd x y h2
        refine .inr ⟨h1, h2, ?_⟩
        rcases h3 with h3 | h3
        · rcases List.mem_cons.mp h3 with e | e
          · exact absurd e hx
          · exact .inl e
        · rcases List.mem_cons.mp h3 with e | e
          · exact absurd e hy
          · exact .inr e

theorem MInv.step {sf other : Dag V} {P : List K} {cur : Dag V} (hwo : other.Wf)
    (h : MInv sf other P cur) {k : K} {n : Node V} (hk : other.get k = some n) (hkP : k ∉ P) :
    MInv sf other (k :: P) (cur.mergeStep k n) := by
  rw [mergeStep_eq]
  -- the graph after the optional `node` call
  have hs1 : ∃ s1 : Dag V, s1 = (if cur.contains k then cur else cur.node k n.value) ∧
      s1.Sorted ∧ s1.TRC ∧ (∀ x, s1.contains x = true ↔ cur.contains x = true ∨ x = k) ∧
      (∀ x, s1.depsOf x = cur.depsOf x) ∧ (∀ x, s1.dependentsOf x = cur.dependentsOf x) ∧
      (∀ x, (s1.get x).map (·.value) =
        if x = k ∧ cur.contains k = false then some n.value else (cur.get x).map (·.value)) := by
    by_cases hc : cur.contains k = true
    · refine ⟨cur, by simp [hc], h.sorted, h.trc, ?_, fun _ => rfl, fun _ => rfl, ?_⟩
      · intro x
        constructor
        · exact fun h1 => .inl h1
        · rintro (h1 | rfl)
          · exact h1
          · exact hc
      · intro x; simp [hc]
    · have hc' : cur.contains k = false := by simpa using hc
      have hgk : cur.get k = none := Dag.not_contains_iff.mp hc'
      refine ⟨cur.node k n.value, by simp [hc'], node_sorted h.sorted _ _, node_trc h.trc _ hgk,
        ?_, ?_, ?_, ?_⟩
      · intro x
        simp only [Dag.contains, node_get]
        by_cases hxk : x = k <;> simp [hxk]
      · intro x
        simp only [Dag.depsOf, node_get]
        by_cases hxk : x = k
        · subst hxk; simp [hgk]
        · simp [hxk]
      · intro x
        simp only [Dag.dependentsOf, node_get]
        by_cases hxk : x = k
        · subst hxk; simp [hgk]
        · simp [hxk]
      · intro x
        simp only [node_get]
        by_cases hxk : x = k
        · simp [hxk, hc']
        · simp [hxk]
  obtain ⟨s1, hs1eq, hsS, hsT, hsC, hsD, hsDt, hsV⟩ := hs1
  rw [← hs1eq]
  have he := addEdges_spec (n.dependents.map (fun d => (d, k)) ++ n.deps.map (fun d => (k, d))) s1
  have hmemE : ∀ x y, (x, y) ∈ (n.dependents.map (fun d => (d, k)) ++ n.deps.map (fun d => (k, d))) ↔
      (y = k ∧ k ∈ other.depsOf x) ∨ (x = k ∧ y ∈ other.depsOf k) := by
    intro x y
    simp only [List.mem_append, List.mem_map, Prod.mk.injEq]
    rw [← hwo.sym k x, Dag.dependentsOf_of_get hk, Dag.depsOf_of_get hk]
    constructor
    · rintro (⟨d, hd, rfl, rfl⟩ | ⟨d, hd, rfl, rfl⟩)
      · exact .inl ⟨rfl, hd⟩
      · exact .inr ⟨rfl, hd⟩
    · rintro (⟨rfl, hd⟩ | ⟨rfl, hd⟩)
      · exact .inl ⟨x, hd, rfl, rfl⟩
      · exact .inr ⟨y, hd, rfl, rfl⟩
  have hrc : ∀ x, (s1.addEdges (n.dependents.map (fun d => (d, k)) ++ n.deps.map (fun d => (k, d)))).contains x
      = true ↔ cur.contains x = true ∨ x = k := by
    intro x; rw [he.contains, hsC]
  have hkc : other.contains k = true := Dag.contains_iff.mpr ⟨n, hk⟩
  refine ⟨he.sorted hsS, he.trc hsT, ?_, ?_, ?_, ?_⟩
  · intro x
    rw [hrc, h.contains]
    constructor
    · rintro ((h1 | ⟨h1, h2⟩) | rfl)
      · exact .inl h1
      · exact .inr ⟨List.mem_cons_of_mem _ h1, h2⟩
      · exact .inr ⟨by simp, hkc⟩
    · rintro (h1 | ⟨h1, h2⟩)
      · exact .inl (.inl h1)
      · rcases List.mem_cons.mp h1 with rfl | h1
        · exact .inr rfl
        · exact .inl (.inr ⟨h1, h2⟩)
  · intro x
    rw [he.value, hsV, h.value]
    by_cases hxk : x = k
    · subst hxk
      by_cases hc : cur.contains x = true
      · simp only [hc, Bool.true_eq_false, and_false, if_false]
        cases hsx : sf.get x with
        | some m => rfl
        | none =>
          simp only [hkP, if_false, List.mem_cons, true_or, if_true]
          -- x is in `cur` but neither in `sf` nor in `P`: impossible
          rcases (h.contains x).mp hc with h1 | ⟨h1, _⟩
          · rw [Dag.contains_iff] at h1; obtain ⟨m, hm⟩ := h1; rw [hm] at hsx; simp at hsx
          · exact absurd h1 hkP
      · have hc' : cur.contains x = false := by simpa using hc
        simp only [hc', and_self, if_true]
        have : sf.get x = none := by
          apply Dag.not_contains_iff.mp
          cases hsc : sf.contains x with
          | false => rfl
          | true => exact absurd ((h.contains x).mpr (.inl hsc)) hc
        simp [this, hk]
    · simp only [hxk, false_and, if_false, List.mem_cons, false_or]
  · intro x y
    rw [he.deps, hsD, hsC, hmemE, h.deps, hrc]
    constructor
    · rintro ((h1 | ⟨h1, h2, h3⟩) | ⟨h1, (⟨rfl, h2⟩ | ⟨rfl, h2⟩)⟩)
      · exact .inl h1
      · refine .inr ⟨.inl h1, h2, ?_⟩
        rcases h3 with h3 | h3
        · exact .inl (List.mem_cons_of_mem _ h3)
        · exact .inr (List.mem_cons_of_mem _ h3)
      · exact .inr ⟨h1, h2, .inr (by simp)⟩
      · exact .inr ⟨h1, h2, .inl (by simp)⟩
    · rintro (h1 | ⟨h1, h2, h3⟩)
      · exact .inl (.inl h1)
      · by_cases hxk : x = k
        · subst hxk
          exact .inr ⟨h1, .inr ⟨rfl, h2⟩⟩
        · by_cases hyk : y = k
          · subst hyk
            exact .inr ⟨h1, .inl ⟨rfl, h2⟩⟩
          · have hc : cur.contains x = true := by
              rcases h1 with h1 | h1
              · exact h1
              · exact absurd h1 hxk
            refine .inl (.inr ⟨hc, h2, ?_⟩)
            rcases h3 with h3 | h3
            · rcases List.mem_cons.mp h3 with e | e
              · exact absurd e hxk
              · exact .inl e
            · rcases List.mem_cons.mp h3 with e | e
              · exact absurd e hyk
              · exact .inr e
  · intro x y
    have hmemE' : (y, x) ∈ (n.dependents.map (fun d => (d, k)) ++ n.deps.map (fun d => (k, d))) ↔
        (x = k ∧ y ∈ other.dependentsOf k) ∨ (y = k ∧ k ∈ other.dependentsOf x) := by
      rw [hmemE y x, hwo.sym k y, hwo.sym x k]
    rw [he.dependents, hsDt, hsC, hmemE', h.dependents, hrc]
    constructor
    · rintro ((h1 | ⟨h1, h2, h3⟩) | ⟨h1, (⟨rfl, h2⟩ | ⟨rfl, h2⟩)⟩)
      · exact .inl h1
      · refine .inr ⟨.inl h1, h2, ?_⟩
        rcases h3 with h3 | h3
        · exact .inl (List.mem_cons_of_mem _ h3)
        · exact .inr (List.mem_cons_of_mem _ h3)
      · exact .inr ⟨h1, h2, .inl (by simp)⟩
      · exact .inr ⟨h1, h2, .inr (by simp)⟩
    · rintro (h1 | ⟨h1, h2, h3⟩)
      · exact .inl (.inl h1)
      · by_cases hxk : x = k
        · subst hxk
          exact .inr ⟨h1, .inl ⟨rfl, h2⟩⟩
        · by_cases hyk : y = k
          · subst hyk
            exact .inr ⟨h1, .inr ⟨rfl, h2⟩⟩
          · have hc : cur.contains x = true := by
              rcases h1 with h1 | h1
              · exact h1
              · exact absurd h1 hxk
            refine .inl (.inr ⟨hc, h2, ?_⟩)
            rcases h3 with h3 | h3
            · rcases List.mem_cons.mp h3 with e | e
              · exact absurd e hxk
              · exact .inl e
            · rcases List.mem_cons.mp h3 with e | e
              · exact absurd e hyk
              · exact .inr e

structure MergePost (sf other : Dag V) (q vis : List K) (r : Dag V) (P : List K) : Prop where
  inv : MInv sf other P r
  mono : ∀ x, x ∈ vis → x ∈ P
  done : ∀ x, x ∈ q → x ∈ P
  closed : ∀ x, x ∈ P → x ∈ vis ∨ ∀ y ∈ other.dependentsOf x, y ∈ P

theorem mergeLoop_post {sf other : Dag V} (hwo : other.Wf) :
    ∀ (fuel : Nat) (q vis : List K) (cur r : Dag V), MInv sf other vis cur →
      Dag.mergeLoop other fuel q vis cur = some r → ∃ P, MergePost sf other q vis r P := by
  intro fuel
  induction fuel with
  | zero => intro q vis cur r _ h; simp [Dag.mergeLoop] at h
  | succ fuel ih =>
    intro q vis cur r hinv h
    cases q with
    | nil =>
      simp [Dag.mergeLoop] at h
      subst h
      exact ⟨vis, hinv, fun _ hx => hx, by simp, fun _ hx => .inl hx⟩
    | cons k q =>
      rw [Dag.mergeLoop] at h
      by_cases hkv : k ∈ vis
      · simp only [hkv, if_true] at h
        obtain ⟨P, hp⟩ := ih _ _ _ _ hinv h
        refine ⟨P, hp.inv, hp.mono, ?_, hp.closed⟩
        intro x hx
        rcases List.mem_cons.mp hx with rfl | hx
        · exact hp.mono _ hkv
        · exact hp.done x hx
      · simp only [hkv, if_false] at h
        cases hk : other.get k with
        | none =>
          simp only [hk] at h
          obtain ⟨P, hp⟩ := ih _ _ _ _ (hinv.skip hwo hk) h
          refine ⟨P, hp.inv, fun x hx => hp.mono x (List.mem_cons_of_mem _ hx), ?_, ?_⟩
          · intro x hx
            rcases List.mem_cons.mp hx with rfl | hx
            · exact hp.mono _ (by simp)
            · exact hp.done x hx
          · intro x hx
            rcases hp.closed x hx with h1 | h1
            · rcases List.mem_cons.mp h1 with rfl | h1
              · right
                intro y hy
                rw [Dag.dependentsOf_of_none hk] at hy; simp at hy
              · exact .inl h1
            · exact .inr h1
        | some n =>
          simp only [hk] at h
          obtain ⟨P, hp⟩ := ih _ _ _ _ (hinv.step hwo hk hkv) h
          refine ⟨P, hp.inv, fun x hx => hp.mono x (List.mem_cons_of_mem _ hx), ?_, ?_⟩
          · intro x hx
            rcases List.mem_cons.mp hx with rfl | hx
            · exact hp.mono _ (by simp)
            · exact hp.done x (List.mem_append_left _ hx)
          · intro x hx
            rcases hp.closed x hx with h1 | h1
            · rcases List.mem_cons.mp h1 with rfl | h1
              · right
                intro y hy
                rw [Dag.dependentsOf_of_get hk] at hy
                exact hp.done y (List.mem_append_right _ hy)
              · exact .inl h1
            · exact .inr h1

/-- Every node is a root or reachable from a root (holds for well-formed acyclic graphs). -/
def Dag.RootReachable (g : Dag V) : Prop :=
  ∀ x, g.contains x = true → x ∈ g.roots ∨ ∃ r ∈ g.roots, g.Desc r x

/-- **`Dag::merge`** of a well-formed, root-reachable `other` into a well-formed `sf`. -/
theorem merge_spec {sf other r : Dag V} (hws : sf.Wf) (hwo : other.Wf)
    (hrr : other.RootReachable) {fuel : Nat} (h : sf.merge other fuel = some r) :
    r.Wf ∧
    (∀ x, r.contains x = true ↔ sf.contains x = true ∨ other.contains x = true) ∧
    (∀ x y, y ∈ r.depsOf x ↔ y ∈ sf.depsOf x ∨ y ∈ other.depsOf x) ∧
    (∀ x y, y ∈ r.dependentsOf x ↔ y ∈ sf.dependentsOf x ∨ y ∈ other.dependentsOf x) ∧
    (∀ x, (r.get x).map (·.value) =
      match sf.get x with
      | some n => some n.value
      | none => (other.get x).map (·.value)) := by
  obtain ⟨P, hp⟩ := mergeLoop_post hwo fuel other.roots [] sf r (MInv.init hws) h
  have hcl : ∀ x, x ∈ P → ∀ y ∈ other.dependentsOf x, y ∈ P := by
    intro x hx
    rcases hp.closed x hx with h1 | h1
    · simp at h1
    · exact h1
  have hall : ∀ x, other.contains x = true → x ∈ P := by
    intro x hx
    rcases hrr x hx with h1 | ⟨r0, h1, h2⟩
    · exact hp.done x h1
    · exact closed_desc hcl (hp.done r0 h1) h2
  have hcont : ∀ x, r.contains x = true ↔ sf.contains x = true ∨ other.contains x = true := by
    intro x
    rw [hp.inv.contains]
    constructor
    · rintro (h1 | ⟨_, h1⟩)
      · exact .inl h1
      · exact .inr h1
    · rintro (h1 | h1)
      · exact .inl h1
      · exact .inr ⟨hall x h1, h1⟩
  have hdeps : ∀ x y, y ∈ r.depsOf x ↔ y ∈ sf.depsOf x ∨ y ∈ other.depsOf x := by
    intro x y
    rw [hp.inv.deps]
    constructor
    · rintro (h1 | ⟨_, h1, _⟩)
      · exact .inl h1
      · exact .inr h1
    · rintro (h1 | h1)
      · exact .inl h1
      · have hx := Dag.contains_of_mem_depsOf h1
        exact .inr ⟨(hcont x).mpr (.inr hx), h1, .inl (hall x hx)⟩
  have hdependents : ∀ x y, y ∈ r.dependentsOf x ↔ y ∈ sf.dependentsOf x ∨ y ∈ other.dependentsOf x := by
    intro x y
    rw [hp.inv.dependents]
    constructor
    · rintro (h1 | ⟨_, h1, _⟩)
      · exact .inl h1
      · exact .inr h1
    · rintro (h1 | h1)
      · exact .inl h1
      · have hx := Dag.contains_of_mem_dependentsOf h1
        exact .inr ⟨(hcont x).mpr (.inr hx), h1, .inl (hall x hx)⟩
  refine ⟨?_, hcont, hdeps, hdependents, ?_⟩
  · refine { toSorted := hp.inv.sorted, sym := ?_, tips_iff := hp.inv.trc.tips_iff,
             roots_iff := hp.inv.trc.roots_iff }
    intro u v
    rw [hdependents, hdeps, hws.sym u v, hwo.sym u v]
  · intro x
    rw [hp.inv.value]
    cases hsx : sf.get x with
    | some n => rfl
    | none =>
      simp only
      by_cases hxP : x ∈ P
      · simp [hxP]
      · simp only [hxP, if_false]
        cases hox : other.get x with
        | none => rfl
        | some m => exact absurd (hall x (Dag.contains_iff.mpr ⟨m, hox⟩)) hxP

end HeartwoodModel.Dag
