/-! Driver entry for property C13 (stub: not implemented yet). -/
namespace HeartwoodModel.Driver.C13

def run (_args : List String) : String := "unimplemented"

end HeartwoodModel.Driver.C13
