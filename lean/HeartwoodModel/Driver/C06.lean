import HeartwoodModel.Model.ChangeGraph
import HeartwoodModel.Driver.Util
import HeartwoodModel.Driver.C05
import HeartwoodModel.Driver.C04
/-! Driver entry for C06. Case: `<changes> <tips> ord=<ranks>` (syntax of `Driver/C05.lean`, one tip
set). Output: `<evaluation of the whole history>=><evaluation of the surviving history on its own>`
(the second is `-` when the first is not an object). The surviving history is loaded through the tips
of the pruned graph, as the harness does with the real code. -/
namespace HeartwoodModel.Driver.C06
open HeartwoodModel.Dag HeartwoodModel.ChangeGraph HeartwoodModel.Driver.Util HeartwoodModel.Driver.C05

/-- Identity family: the `op` model of `Model/Identity.lean` (C04) replayed along the evaluation order of
the surviving sub-history (`order2`, observed on the real code), without the completeness check of
`orderOk` (the ops pruned in the whole history are simply never reached). -/
def runSub (order2 : String) (args : List String) : String :=
  match args with
  | "id" :: repoDoc :: docs :: _sigs :: vt :: _order :: ops =>
    match nat? repoDoc, C04.parseDocs docs, C04.parseV vt, C04.parseOrder order2 with
    | some repoDoc, some docs, some vt, some order =>
      match ops.mapM (C04.parseOp docs) with
      | some (root :: rest) =>
        let all := root :: rest
        let V := C04.mkV vt
        let embedded : Option HeartwoodModel.Identity.IdDoc := match root.actions with
          | [.revision _ d _ _] => d
          | _ => none
        match HeartwoodModel.Identity.fromRoot V (C04.toOp 0 false root) embedded repoDoc with
        | .error .panic => "init-panic"
        | .error _ => "init-err"
        | .ok s0 =>
          match C04.evalOrder V all s0 order [] [] with
          | none => "bad-op"
          | some (s, rs, _) => s!"r={C08.dash (joinWith "" rs)};{C04.showIdentity s}"
      | _ => "bad-op"
    | _, _, _, _ => "bad-op"
  | _ => "bad-op"

def run (args : List String) : String :=
  match args with
  | "idc" :: order2 :: rest =>
    let first := C04.run rest
    if first == "init-err" || first == "init-panic" then first ++ "=>-"
    else first ++ "=>" ++ runSub order2 rest
  | [changes, tips, ord, sig] =>
    match parseCase changes ord sig, parseRefs tips ',' with
    | some c, some tips =>
      let full := evalTips c (issueApply c) tips
      let first := showOut (showIssue c) full
      match full with
      | some (some (.ok _ g')) =>
        let tips' := sortNat (g'.tipsOf.filterMap c.idxOf)
        first ++ "=>" ++ showOut (showIssue c) (evalTips c (issueApply c) (tips'.map some))
      | _ => first ++ "=>-"
    | _, _ => "bad-op"
  | _ => "bad-op"

end HeartwoodModel.Driver.C06
