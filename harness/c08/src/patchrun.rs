//! Patch cases: text form ⇄ real patch COB history, real evaluation, canonical output.
//! Shared by the C08 and C07 harnesses (included with `#[path]`). Case syntax: see
//! `lean/HeartwoodModel/Driver/C08.lean`.
#![allow(dead_code)]

use std::collections::{BTreeMap, BTreeSet};

use nonempty::NonEmpty;
use radicle::cob;
use radicle::cob::patch::{Action, Lifecycle, MergeTarget, Patch, ReviewId, RevisionId, Verdict};
use radicle::cob::store::CobWithType as _;
use radicle::cob::Label;
use radicle::git::Oid;
use radicle::identity::doc::Doc;
use radicle::storage::ReadRepository;
use serde_json::Value;

use crate::inject::*;

#[derive(Clone, Debug, PartialEq)]
pub enum PAct {
    Edit(u64),
    Label(Vec<u64>),
    Lifecycle(char),
    Assign(Vec<u64>),
    Merge { rev: u64, commit: u64, anc: char },
    Review { rev: u64, summary: Option<u64>, verdict: char, labels: Vec<u64> },
    ReviewEdit { review: u64, summary: Option<u64>, verdict: char, labels: Vec<u64> },
    ReviewRedact(u64),
    ReviewComment { review: u64, body: u64, reply: Option<u64> },
    ReviewCommentEdit { review: u64, comment: u64, body: u64 },
    ReviewCommentRedact { review: u64, comment: u64 },
    ReviewCommentReact { review: u64, comment: u64 },
    ReviewCommentResolve { review: u64, comment: u64 },
    ReviewCommentUnresolve { review: u64, comment: u64 },
    Revision(u64),
    RevisionEdit { rev: u64, desc: u64 },
    RevisionReact(u64),
    RevisionRedact(u64),
    RevisionComment { rev: u64, body: u64, reply: Option<u64> },
    RevisionCommentEdit { rev: u64, comment: u64, body: u64 },
    RevisionCommentRedact { rev: u64, comment: u64 },
    RevisionCommentReact { rev: u64, comment: u64 },
}

#[derive(Clone, Debug)]
pub struct POp {
    pub author: usize,
    pub doc: Option<usize>,
    pub ts: u64,
    pub tips: Vec<usize>,
    pub actions: Vec<PAct>,
}

#[derive(Clone, Debug)]
pub struct PCase {
    pub docs: Vec<(Vec<usize>, usize)>,
    pub heads: Vec<Option<usize>>,
    /// order of the real evaluation (reported in the OUTPUT; not part of the case text any more)
    pub order: Vec<usize>,
    /// `g=<ranks>/<sigbits>` (computed by the real code) or `?`
    pub g: String,
    pub ops: Vec<POp>,
}

fn opt(s: &str) -> Option<Option<u64>> {
    if s == "-" {
        Some(None)
    } else {
        nat(s).map(Some)
    }
}
fn show_opt(o: &Option<u64>) -> String {
    o.map(|x| x.to_string()).unwrap_or("-".into())
}
fn plus(s: &str) -> Option<Vec<u64>> {
    nat_list(s, '+')
}
fn show_plus(xs: &[u64]) -> String {
    show_list(&xs.iter().map(|x| x.to_string()).collect::<Vec<_>>(), "+")
}
fn verdict(s: &str) -> Option<char> {
    match s {
        "a" => Some('a'),
        "r" => Some('r'),
        "-" => Some('-'),
        _ => None,
    }
}

pub fn parse_action(s: &str) -> Option<PAct> {
    let f = split(s, ',');
    Some(match f.as_slice() {
        ["ed", t] => PAct::Edit(nat(t)?),
        ["lb", l] => PAct::Label(plus(l)?),
        ["lc", l] if ["o", "d", "a"].contains(l) => PAct::Lifecycle(l.chars().next()?),
        ["as", l] => {
            let v = plus(l)?;
            if v.iter().any(|a| *a >= N_ACTORS as u64) {
                return None;
            }
            PAct::Assign(v)
        }
        ["mg", r, c, a] if ["n", "y", "e", "?"].contains(a) => {
            PAct::Merge { rev: nat(r)?, commit: nat(c)?, anc: a.chars().next()? }
        }
        ["rv", r, s, v, l] => PAct::Review { rev: nat(r)?, summary: opt(s)?, verdict: verdict(v)?, labels: plus(l)? },
        ["rve", r, s, v, l] => {
            PAct::ReviewEdit { review: nat(r)?, summary: opt(s)?, verdict: verdict(v)?, labels: plus(l)? }
        }
        ["rvr", r] => PAct::ReviewRedact(nat(r)?),
        ["rc", r, b, rt] => PAct::ReviewComment { review: nat(r)?, body: nat(b)?, reply: opt(rt)? },
        ["rce", r, c, b] => PAct::ReviewCommentEdit { review: nat(r)?, comment: nat(c)?, body: nat(b)? },
        ["rcr", r, c] => PAct::ReviewCommentRedact { review: nat(r)?, comment: nat(c)? },
        ["rca", r, c] => PAct::ReviewCommentReact { review: nat(r)?, comment: nat(c)? },
        ["rcs", r, c] => PAct::ReviewCommentResolve { review: nat(r)?, comment: nat(c)? },
        ["rcu", r, c] => PAct::ReviewCommentUnresolve { review: nat(r)?, comment: nat(c)? },
        ["rn", d] => PAct::Revision(nat(d)?),
        ["rne", r, d] => PAct::RevisionEdit { rev: nat(r)?, desc: nat(d)? },
        ["rna", r] => PAct::RevisionReact(nat(r)?),
        ["rnr", r] => PAct::RevisionRedact(nat(r)?),
        ["dc", r, b, rt] => PAct::RevisionComment { rev: nat(r)?, body: nat(b)?, reply: opt(rt)? },
        ["dce", r, c, b] => PAct::RevisionCommentEdit { rev: nat(r)?, comment: nat(c)?, body: nat(b)? },
        ["dcr", r, c] => PAct::RevisionCommentRedact { rev: nat(r)?, comment: nat(c)? },
        ["dca", r, c] => PAct::RevisionCommentReact { rev: nat(r)?, comment: nat(c)? },
        _ => return None,
    })
}

pub fn show_action(a: &PAct) -> String {
    match a {
        PAct::Edit(t) => format!("ed,{t}"),
        PAct::Label(l) => format!("lb,{}", show_plus(l)),
        PAct::Lifecycle(c) => format!("lc,{c}"),
        PAct::Assign(l) => format!("as,{}", show_plus(l)),
        PAct::Merge { rev, commit, anc } => format!("mg,{rev},{commit},{anc}"),
        PAct::Review { rev, summary, verdict, labels } => {
            format!("rv,{rev},{},{verdict},{}", show_opt(summary), show_plus(labels))
        }
        PAct::ReviewEdit { review, summary, verdict, labels } => {
            format!("rve,{review},{},{verdict},{}", show_opt(summary), show_plus(labels))
        }
        PAct::ReviewRedact(r) => format!("rvr,{r}"),
        PAct::ReviewComment { review, body, reply } => format!("rc,{review},{body},{}", show_opt(reply)),
        PAct::ReviewCommentEdit { review, comment, body } => format!("rce,{review},{comment},{body}"),
        PAct::ReviewCommentRedact { review, comment } => format!("rcr,{review},{comment}"),
        PAct::ReviewCommentReact { review, comment } => format!("rca,{review},{comment}"),
        PAct::ReviewCommentResolve { review, comment } => format!("rcs,{review},{comment}"),
        PAct::ReviewCommentUnresolve { review, comment } => format!("rcu,{review},{comment}"),
        PAct::Revision(d) => format!("rn,{d}"),
        PAct::RevisionEdit { rev, desc } => format!("rne,{rev},{desc}"),
        PAct::RevisionReact(r) => format!("rna,{r}"),
        PAct::RevisionRedact(r) => format!("rnr,{r}"),
        PAct::RevisionComment { rev, body, reply } => format!("dc,{rev},{body},{}", show_opt(reply)),
        PAct::RevisionCommentEdit { rev, comment, body } => format!("dce,{rev},{comment},{body}"),
        PAct::RevisionCommentRedact { rev, comment } => format!("dcr,{rev},{comment}"),
        PAct::RevisionCommentReact { rev, comment } => format!("dca,{rev},{comment}"),
    }
}

/// Ids an action refers to (must be earlier ops or "nonexistent" ids ≥ 90).
fn refs_of(a: &PAct) -> Vec<u64> {
    match a {
        PAct::Merge { rev, .. } | PAct::Review { rev, .. } | PAct::RevisionEdit { rev, .. } => vec![*rev],
        PAct::RevisionReact(r) | PAct::RevisionRedact(r) | PAct::ReviewRedact(r) => vec![*r],
        PAct::ReviewEdit { review, .. } => vec![*review],
        PAct::ReviewComment { review, reply, .. } => std::iter::once(*review).chain(*reply).collect(),
        PAct::ReviewCommentEdit { review, comment, .. }
        | PAct::ReviewCommentRedact { review, comment }
        | PAct::ReviewCommentReact { review, comment }
        | PAct::ReviewCommentResolve { review, comment }
        | PAct::ReviewCommentUnresolve { review, comment } => vec![*review, *comment],
        PAct::RevisionComment { rev, reply, .. } => std::iter::once(*rev).chain(*reply).collect(),
        PAct::RevisionCommentEdit { rev, comment, .. }
        | PAct::RevisionCommentRedact { rev, comment }
        | PAct::RevisionCommentReact { rev, comment } => vec![*rev, *comment],
        _ => vec![],
    }
}

pub const FAKE_ID_BASE: u64 = 90;

pub fn parse_docs(s: &str) -> Option<Vec<(Vec<usize>, usize)>> {
    split(s, ';')
        .into_iter()
        .map(|d| {
            let f = split(d, '/');
            if f.len() != 2 {
                return None;
            }
            let ds: Vec<usize> = nat_list(f[0], ',')?.into_iter().map(|x| x as usize).collect();
            if ds.iter().any(|d| *d >= N_ACTORS) {
                return None;
            }
            Some((ds, nat(f[1])? as usize))
        })
        .collect()
}

pub fn show_docs(docs: &[(Vec<usize>, usize)]) -> String {
    docs.iter()
        .map(|(ds, t)| format!("{}/{t}", show_list(&ds.iter().map(|d| d.to_string()).collect::<Vec<_>>(), ",")))
        .collect::<Vec<_>>()
        .join(";")
}

pub fn parse_heads(s: &str) -> Option<Vec<Option<usize>>> {
    let v: Vec<Option<usize>> = split(s, ',')
        .into_iter()
        .map(|h| if h == "x" { Some(None) } else { nat(h).map(|x| Some(x as usize)) })
        .collect::<Option<_>>()?;
    if v.len() != N_ACTORS {
        return None;
    }
    Some(v)
}

pub fn show_heads(h: &[Option<usize>]) -> String {
    h.iter().map(|x| x.map(|c| c.to_string()).unwrap_or("x".into())).collect::<Vec<_>>().join(",")
}

/// Parse `author:doc:ts:tips:actions` with the given action parser.
pub fn parse_op_generic<A>(s: &str, ndocs: usize, idx: usize, pa: impl Fn(&str) -> Option<A>)
    -> Option<(usize, Option<usize>, u64, Vec<usize>, Vec<A>)> {
    let f = split(s, ':');
    if f.len() != 5 {
        return None;
    }
    let author = nat(f[0])? as usize;
    if author >= N_ACTORS {
        return None;
    }
    let doc = if f[1] == "x" { None } else { Some(nat(f[1])? as usize) };
    if let Some(d) = doc {
        if d >= ndocs {
            return None;
        }
    }
    let ts = nat(f[2])?;
    let tips: Vec<usize> = nat_list(f[3], ',')?.into_iter().map(|x| x as usize).collect();
    if tips.iter().any(|t| *t >= idx) || (idx > 0 && tips.is_empty()) || (idx == 0 && !tips.is_empty()) {
        return None;
    }
    let actions: Vec<A> = split(f[4], '|').into_iter().map(|a| pa(a)).collect::<Option<_>>()?;
    if actions.is_empty() {
        return None;
    }
    Some((author, doc, ts, tips, actions))
}

pub fn parse(input: &str) -> Option<PCase> {
    let toks: Vec<&str> = input.split(' ').collect();
    if toks.len() < 5 || toks[0] != "patch" {
        return None;
    }
    let docs = parse_docs(toks[1])?;
    let heads = parse_heads(toks[2])?;
    let order: Vec<usize> = vec![];
    let mut ops = vec![];
    for (i, t) in toks[4..].iter().enumerate() {
        let (author, doc, ts, tips, actions) = parse_op_generic(t, docs.len(), i, parse_action)?;
        for a in &actions {
            for r in refs_of(a) {
                if r >= i as u64 && r < FAKE_ID_BASE {
                    return None;
                }
            }
        }
        ops.push(POp { author, doc, ts, tips, actions });
    }
    Some(PCase { docs, heads, order, g: "?".into(), ops })
}

pub fn render(c: &PCase) -> String {
    let mut s = format!(
        "patch {} {} {}",
        show_docs(&c.docs),
        show_heads(&c.heads),
        c.g
    );
    for o in &c.ops {
        s.push_str(&format!(
            " {}:{}:{}:{}:{}",
            o.author,
            o.doc.map(|d| d.to_string()).unwrap_or("x".into()),
            o.ts,
            show_list(&o.tips.iter().map(|x| x.to_string()).collect::<Vec<_>>(), ","),
            o.actions.iter().map(show_action).collect::<Vec<_>>().join("|")
        ));
    }
    s
}

pub fn body(k: u64) -> String {
    if k == 0 {
        String::new()
    } else {
        format!("b{k}")
    }
}
pub fn unbody(s: &str) -> String {
    if s.is_empty() {
        "0".into()
    } else {
        s[1..].to_string()
    }
}
fn label(k: u64) -> Label {
    Label::new(format!("l{k}")).unwrap()
}
fn to_verdict(c: char) -> Option<Verdict> {
    match c {
        'a' => Some(Verdict::Accept),
        'r' => Some(Verdict::Reject),
        _ => None,
    }
}

/// What the real evaluation did, step by step (for the oracles).
pub struct PStep {
    pub op: usize,
    pub ok: bool,
    pub before: Patch,
    pub after: Patch,
}

pub struct PRun {
    pub output: String,
    pub steps: Vec<PStep>,
    pub init: Option<Patch>,
    pub last: Option<Patch>,
    /// real documents of the case (as loaded by `identity_doc_at`)
    pub docs: Vec<Doc>,
    pub ids: Vec<Oid>,
    pub tags: Vec<String>,
}

pub fn id_of(ids: &[Oid], k: u64) -> Oid {
    if (k as usize) < ids.len() {
        ids[k as usize]
    } else {
        fake_oid(k)
    }
}

fn to_action(w: &World, ids: &[Oid], a: &PAct) -> Action {
    let id = |k: &u64| id_of(ids, *k);
    match a {
        PAct::Edit(t) => Action::Edit { title: format!("t{t}"), target: MergeTarget::Delegates },
        PAct::Label(l) => Action::Label { labels: l.iter().map(|k| label(*k)).collect() },
        PAct::Lifecycle(c) => Action::Lifecycle {
            state: match c {
                'o' => Lifecycle::Open,
                'd' => Lifecycle::Draft,
                _ => Lifecycle::Archived,
            },
        },
        PAct::Assign(l) => Action::Assign { assignees: l.iter().map(|a| w.did(*a as usize % N_ACTORS)).collect() },
        PAct::Merge { rev, commit, .. } => {
            Action::Merge { revision: RevisionId::from(id(rev)), commit: w.commit(*commit as usize) }
        }
        PAct::Review { rev, summary, verdict, labels } => Action::Review {
            revision: RevisionId::from(id(rev)),
            summary: summary.map(|s| format!("s{s}")),
            verdict: to_verdict(*verdict),
            labels: labels.iter().map(|k| label(*k)).collect(),
        },
        PAct::ReviewEdit { review, summary, verdict, labels } => Action::ReviewEdit {
            review: ReviewId::from(id(review)),
            summary: summary.map(|s| format!("s{s}")),
            verdict: to_verdict(*verdict),
            labels: labels.iter().map(|k| label(*k)).collect(),
        },
        PAct::ReviewRedact(r) => Action::ReviewRedact { review: ReviewId::from(id(r)) },
        PAct::ReviewComment { review, body: b, reply } => Action::ReviewComment {
            review: ReviewId::from(id(review)),
            body: body(*b),
            location: None,
            reply_to: reply.as_ref().map(id),
            embeds: vec![],
        },
        PAct::ReviewCommentEdit { review, comment, body: b } => Action::ReviewCommentEdit {
            review: ReviewId::from(id(review)),
            comment: id(comment),
            body: body(*b),
            embeds: vec![],
        },
        PAct::ReviewCommentRedact { review, comment } => {
            Action::ReviewCommentRedact { review: ReviewId::from(id(review)), comment: id(comment) }
        }
        PAct::ReviewCommentReact { review, comment } => Action::ReviewCommentReact {
            review: ReviewId::from(id(review)),
            comment: id(comment),
            reaction: cob::Reaction::new('👍').unwrap(),
            active: true,
        },
        PAct::ReviewCommentResolve { review, comment } => {
            Action::ReviewCommentResolve { review: ReviewId::from(id(review)), comment: id(comment) }
        }
        PAct::ReviewCommentUnresolve { review, comment } => {
            Action::ReviewCommentUnresolve { review: ReviewId::from(id(review)), comment: id(comment) }
        }
        PAct::Revision(d) => Action::Revision {
            description: format!("d{d}"),
            base: w.commit(0),
            oid: w.commit(4),
            resolves: Default::default(),
        },
        PAct::RevisionEdit { rev, desc } => {
            Action::RevisionEdit { revision: RevisionId::from(id(rev)), description: format!("d{desc}"), embeds: vec![] }
        }
        PAct::RevisionReact(r) => Action::RevisionReact {
            revision: RevisionId::from(id(r)),
            location: None,
            reaction: cob::Reaction::new('👍').unwrap(),
            active: true,
        },
        PAct::RevisionRedact(r) => Action::RevisionRedact { revision: RevisionId::from(id(r)) },
        PAct::RevisionComment { rev, body: b, reply } => Action::RevisionComment {
            revision: RevisionId::from(id(rev)),
            location: None,
            body: body(*b),
            reply_to: reply.as_ref().map(id),
            embeds: vec![],
        },
        PAct::RevisionCommentEdit { rev, comment, body: b } => Action::RevisionCommentEdit {
            revision: RevisionId::from(id(rev)),
            comment: id(comment),
            body: body(*b),
            embeds: vec![],
        },
        PAct::RevisionCommentRedact { rev, comment } => {
            Action::RevisionCommentRedact { revision: RevisionId::from(id(rev)), comment: id(comment) }
        }
        PAct::RevisionCommentReact { rev, comment } => Action::RevisionCommentReact {
            revision: RevisionId::from(id(rev)),
            comment: id(comment),
            reaction: cob::Reaction::new('👍').unwrap(),
            active: true,
        },
    }
}

/// Generic machinery: store the ops of a case as change commits and set one ref per DAG tip.
/// Returns the oids and the ref holders used (for cleanup).
pub fn store_history(
    w: &mut World,
    type_name: &cob::TypeName,
    doc_commits: &[Oid],
    ops: &[(usize, Option<usize>, u64, Vec<usize>)],
    mut contents: impl FnMut(&World, &[Oid], usize) -> NonEmpty<Vec<u8>>,
    mut embeds: impl FnMut(&World, usize) -> Vec<cob::Embed<Oid>>,
) -> Result<(Vec<Oid>, Vec<radicle::crypto::PublicKey>), String> {
    let mut ids: Vec<Oid> = vec![];
    for (i, (author, doc, ts, tips)) in ops.iter().enumerate() {
        let c = contents(w, &ids, i);
        let e = embeds(w, i);
        let resource = doc.map(|d| doc_commits[d]);
        let tips: Vec<Oid> = tips.iter().map(|t| ids[*t]).collect();
        let id = w.store_raw(*author, resource, type_name.clone(), tips, *ts, e, c, format!("op {i}"))?;
        ids.push(id);
    }
    // One ref per DAG tip: the tip author's namespace if still free, else any free actor's.
    let mut has_child = vec![false; ops.len()];
    for (_, _, _, tips) in ops {
        for t in tips {
            has_child[*t] = true;
        }
    }
    let object = cob::ObjectId::from(ids[0]);
    let mut used: BTreeSet<usize> = BTreeSet::new();
    let mut holders = vec![];
    let tips: Vec<usize> = (0..ops.len()).filter(|i| !has_child[*i]).collect();
    for t in &tips {
        let pref = ops[*t].0;
        // (any namespace can hold the ref: evaluation loads every `refs/namespaces/*/refs/cobs/<type>/<id>`)
        let holder = if !used.contains(&pref) { pref } else { (0..64).find(|a| !used.contains(a)).ok_or("too many tips")? };
        used.insert(holder);
        let key = if holder < N_ACTORS {
            w.key(holder)
        } else {
            *radicle::node::device::Device::from(radicle::crypto::test::signer::MockSigner::from_seed([100 + holder as u8; 32]))
                .public_key()
        };
        w.set_ref(&key, type_name, &object, &ids[*t]);
        holders.push(key);
    }
    Ok((ids, holders))
}

/// Run the REAL code on a case. Fills in the facts computed by the real code (`anc` of each merge,
/// the evaluation `order`) in `case`.
pub fn run(w: &mut World, case: &mut PCase) -> Result<PRun, String> {
    w.used += 1;
    let type_name = Patch::type_name().clone();
    // documents
    let mut doc_commits = vec![];
    let mut docs = vec![];
    for (ds, t) in &case.docs {
        let c = w.doc_commit(ds, *t)?;
        doc_commits.push(c);
        docs.push(w.repo.identity_doc_at(c).map_err(|e| e.to_string())?.doc);
    }
    // default-branch heads
    for (a, h) in case.heads.iter().enumerate() {
        w.set_head(a, *h);
    }
    // facts: ancestry
    for o in case.ops.iter_mut() {
        let author = o.author;
        for a in o.actions.iter_mut() {
            if let PAct::Merge { commit, anc, .. } = a {
                *anc = w.ancestry(author, w.commit(*commit as usize));
            }
        }
    }
    let meta: Vec<(usize, Option<usize>, u64, Vec<usize>)> =
        case.ops.iter().map(|o| (o.author, o.doc, o.ts, o.tips.clone())).collect();
    let ops = case.ops.clone();
    let (ids, holders) = store_history(
        w,
        &type_name,
        &doc_commits,
        &meta,
        |w, ids, i| {
            let v: Vec<Vec<u8>> =
                ops[i].actions.iter().map(|a| cob::store::encoding::encode(to_action(w, ids, a)).unwrap()).collect();
            NonEmpty::from_vec(v).unwrap()
        },
        |_, _| vec![],
    )?;
    let object = cob::ObjectId::from(ids[0]);
    case.g = graph_token(&w.repo, &ids);
    let res = verif_common::catch(|| cob::get::<Traced<Patch>, _>(&w.repo, &type_name, &object));
    for h in &holders {
        w.remove_ref(h, &type_name, &object);
    }
    let mut tags = vec![];
    let traced = match res {
        Err(_) => {
            case.order = vec![];
            return Ok(PRun { output: "init-panic".into(), steps: vec![], init: None, last: None, docs, ids, tags });
        }
        Ok(Err(_)) | Ok(Ok(None)) => {
            case.order = vec![];
            tags.push("init-err".into());
            return Ok(PRun { output: "init-err".into(), steps: vec![], init: None, last: None, docs, ids, tags });
        }
        Ok(Ok(Some(c))) => c.object,
    };
    let mut order = vec![];
    let mut steps = vec![];
    let mut res_s = String::new();
    let mut prev = traced.init.clone();
    for s in &traced.trace {
        let k = ids.iter().position(|i| *i == s.id).ok_or("unknown entry in trace")?;
        order.push(k);
        res_s.push(if s.ok { 'o' } else { 'e' });
        steps.push(PStep { op: k, ok: s.ok, before: prev.clone(), after: s.after.clone() });
        prev = s.after.clone();
    }
    case.order = order;
    let out = format!(
        "o={};r={};{}",
        show_list(&case.order.iter().map(|x| x.to_string()).collect::<Vec<_>>(), ","),
        if res_s.is_empty() { "-".into() } else { res_s },
        show_patch(w, &ids, &traced.inner)?
    );
    Ok(PRun { output: out, steps, init: Some(traced.init), last: Some(traced.inner), docs, ids, tags })
}

// ---- canonical output from the real `Patch` (via its serde form, which exposes every field) ----

fn idx_of(ids: &[Oid], s: &str) -> String {
    match ids.iter().position(|i| i.to_string() == s) {
        Some(k) => k.to_string(),
        None => {
            // fake ids: `fake_oid(n)`
            for n in FAKE_ID_BASE..FAKE_ID_BASE + 20 {
                if fake_oid(n).to_string() == s {
                    return n.to_string();
                }
            }
            format!("?{s}")
        }
    }
}

fn actor_s(w: &World, v: &Value) -> String {
    let s = match v {
        Value::String(s) => s.clone(),
        Value::Object(o) => o.get("id").and_then(|x| x.as_str()).unwrap_or("?").to_string(),
        _ => "?".into(),
    };
    w.actor_of(&s).map(|a| a.to_string()).unwrap_or(format!("?{s}"))
}

fn tok(s: &str) -> String {
    // "t12" / "d3" / "b7" / "l4" / "s1" → the number; "" → 0
    if s.is_empty() {
        "0".into()
    } else {
        s[1..].to_string()
    }
}

fn sorted_by_num(mut v: Vec<(String, String)>) -> Vec<String> {
    v.sort_by_key(|(k, _)| k.parse::<u64>().unwrap_or(u64::MAX));
    v.into_iter().map(|(_, s)| s).collect()
}

fn show_edits(w: &World, edits: &Value) -> String {
    let v: Vec<String> = edits
        .as_array()
        .map(|a| {
            a.iter()
                .map(|e| format!("{}.{}", actor_s(w, &e["author"]), tok(e["body"].as_str().unwrap_or("??"))))
                .collect()
        })
        .unwrap_or_default();
    show_list(&v, ",")
}

pub fn show_thread(w: &World, ids: &[Oid], t: &Value, isep: &str, fsep: &str) -> String {
    let mut items = vec![];
    if let Some(m) = t["comments"].as_object() {
        for (k, c) in m {
            let id = idx_of(ids, k);
            let s = if c.is_null() {
                format!("{id}{fsep}x")
            } else {
                let reply = c.get("replyTo").and_then(|r| r.as_str()).map(|r| idx_of(ids, r)).unwrap_or("-".into());
                format!(
                    "{id}{fsep}{}{fsep}{}{fsep}{reply}{fsep}{}",
                    actor_s(w, &c["author"]),
                    show_edits(w, &c["edits"]),
                    if c["resolved"].as_bool().unwrap_or(false) { "1" } else { "0" }
                )
            };
            items.push((id, s));
        }
    }
    show_list(&sorted_by_num(items), isep)
}

fn show_state(ids: &[Oid], w: &World, st: &Value) -> String {
    let commit = |v: &Value| -> String {
        let s = v.as_str().unwrap_or("?");
        match w.commits.iter().position(|c| c.to_string() == s) {
            Some(k) => k.to_string(),
            None => {
                for n in N_COMMITS..N_COMMITS + 10 {
                    if w.commit(n).to_string() == s {
                        return n.to_string();
                    }
                }
                format!("?{s}")
            }
        }
    };
    match st["status"].as_str().unwrap_or("?") {
        "draft" => "draft".into(),
        "archived" => "archived".into(),
        "open" => {
            let mut cs: Vec<(u64, u64)> = st
                .get("conflicts")
                .and_then(|c| c.as_array())
                .map(|a| {
                    a.iter()
                        .map(|p| {
                            (
                                idx_of(ids, p[0].as_str().unwrap_or("?")).parse().unwrap_or(u64::MAX),
                                commit(&p[1]).parse().unwrap_or(u64::MAX),
                            )
                        })
                        .collect()
                })
                .unwrap_or_default();
            cs.sort();
            if cs.is_empty() {
                "open".into()
            } else {
                format!("open:{}", cs.iter().map(|(r, c)| format!("{r}.{c}")).collect::<Vec<_>>().join("+"))
            }
        }
        "merged" => format!("merged:{}.{}", idx_of(ids, st["revision"].as_str().unwrap_or("?")), commit(&st["commit"])),
        other => format!("?{other}"),
    }
}

pub fn show_patch(w: &World, ids: &[Oid], p: &Patch) -> Result<String, String> {
    let v = serde_json::to_value(p).map_err(|e| e.to_string())?;
    let commit_idx = |s: &str| -> String {
        match w.commits.iter().position(|c| c.to_string() == s) {
            Some(k) => k.to_string(),
            None => (N_COMMITS..N_COMMITS + 10)
                .find(|n| w.commit(*n).to_string() == s)
                .map(|n| n.to_string())
                .unwrap_or(format!("?{s}")),
        }
    };
    let labels = |v: &Value| -> Vec<String> {
        v.as_array().map(|a| a.iter().map(|l| tok(l.as_str().unwrap_or("??"))).collect()).unwrap_or_default()
    };
    let mut lb: Vec<u64> = labels(&v["labels"]).iter().filter_map(|s| s.parse().ok()).collect();
    lb.sort();
    let mut asg: Vec<u64> = v["assignees"]
        .as_array()
        .map(|a| a.iter().filter_map(|x| actor_s(w, x).parse().ok()).collect())
        .unwrap_or_default();
    asg.sort();
    let mut mg = vec![];
    if let Some(m) = v["merges"].as_object() {
        for (k, m) in m {
            let a = actor_s(w, &Value::String(k.clone()));
            mg.push((
                a.clone(),
                format!(
                    "{a}.{}.{}",
                    idx_of(ids, m["revision"].as_str().unwrap_or("?")),
                    commit_idx(m["commit"].as_str().unwrap_or("?"))
                ),
            ));
        }
    }
    let mut rv = vec![];
    if let Some(m) = v["revisions"].as_object() {
        for (k, r) in m {
            let id = idx_of(ids, k);
            let s = if r.is_null() {
                format!("{id}~x")
            } else {
                let mut reviews = vec![];
                if let Some(rm) = r["reviews"].as_object() {
                    for (rk, rvw) in rm {
                        let reviewer = actor_s(w, &Value::String(rk.clone()));
                        let summary = rvw.get("summary").and_then(|s| s.as_str()).map(tok).unwrap_or("-".into());
                        let verdict = match rvw.get("verdict").and_then(|s| s.as_str()) {
                            Some("accept") => "a",
                            Some("reject") => "r",
                            _ => "-",
                        };
                        reviews.push((
                            reviewer.clone(),
                            format!(
                                "{reviewer}={}={}={summary}={verdict}={}={}",
                                idx_of(ids, rvw["id"].as_str().unwrap_or("?")),
                                actor_s(w, &rvw["author"]),
                                show_list(&labels(&rvw["labels"]), ","),
                                show_thread(w, ids, &rvw["comments"], "!", "^")
                            ),
                        ));
                    }
                }
                // description edits: [{author, timestamp, body, embeds}]
                format!(
                    "{id}~{}~{}~{}~{}",
                    actor_s(w, &r["author"]),
                    show_edits(w, &r["description"]),
                    show_thread(w, ids, &r["discussion"], "&", "="),
                    show_list(&sorted_by_num(reviews), "&")
                )
            };
            rv.push((id, s));
        }
    }
    let mut ri = vec![];
    if let Some(m) = v["reviews"].as_object() {
        for (k, l) in m {
            let id = idx_of(ids, k);
            let s = if l.is_null() {
                format!("{id}.x")
            } else {
                format!("{id}.{}.{}", idx_of(ids, l[0].as_str().unwrap_or("?")), actor_s(w, &l[1]))
            };
            ri.push((id, s));
        }
    }
    Ok(format!(
        "t={};au={};st={};lb={};as={};mg={};rv={};ri={}",
        tok(v["title"].as_str().unwrap_or("??")),
        actor_s(w, &v["author"]),
        show_state(ids, w, &v["state"]),
        show_list(&lb.iter().map(|x| x.to_string()).collect::<Vec<_>>(), "+"),
        show_list(&asg.iter().map(|x| x.to_string()).collect::<Vec<_>>(), "+"),
        show_list(&sorted_by_num(mg), "+"),
        show_list(&sorted_by_num(rv), "+"),
        show_list(&sorted_by_num(ri), "+"),
    ))
}

/// The actor indices of the real document's delegates.
pub fn doc_delegates(w: &World, d: &Doc) -> BTreeSet<usize> {
    d.delegates().iter().filter_map(|did| w.actor_of(&did.to_string())).collect()
}

pub fn merges_of(w: &World, ids: &[Oid], p: &Patch) -> BTreeMap<usize, (String, Oid)> {
    p.merges()
        .filter_map(|(a, m)| {
            Some((w.actor_of(&a.to_string())?, (idx_of(ids, &m.revision.to_string()), m.commit)))
        })
        .collect()
}
