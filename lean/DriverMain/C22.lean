import HeartwoodModel.Driver.Loop
import HeartwoodModel.Driver.C22
def main : IO Unit := HeartwoodModel.Driver.driverMain "C22" HeartwoodModel.Driver.C22.run
