/-! Driver entry for property C18 (stub: not implemented yet). -/
namespace HeartwoodModel.Driver.C18

def run (_args : List String) : String := "unimplemented"

end HeartwoodModel.Driver.C18
