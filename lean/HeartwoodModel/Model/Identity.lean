import HeartwoodModel.Model.Thread
/-!
# Model of `crates/radicle/src/cob/identity.rs` (`Identity::action`, `adopt`, `Revision::accept` / `reject`, `op`, `from_root`)

Import-free (only `Model/Thread.lean` for `Id`, `Err`, `ins`, `get?`). One Lean arm per Rust `match` arm,
as of the current `/repo` (with the `fix:` commits: `Identity::op` is atomic; `RevisionAccept` verifies the
signature and the duplicate-verdict rule BEFORE recording the head and the verdict).

* Keys (delegates / authors), revision ids (entry ids), signatures, document blobs and titles are
  natural-number tokens. A document is identified by its blob (`IdDoc.blob`); `Doc == Doc` of the Rust
  is equality of blobs (canonical encoding).
* Ed25519 verification is the parameter `V : key → signature → blob → Bool` of every function
  (`PublicKey::verify`); its graph on the points used is sent by the harness with each case.
* `Op.concurrent` — whether `ChangeGraph::evaluate` handed a non-empty set of concurrent entries to
  `apply` (an `UnexpectedState` action is then skipped instead of failing the op).
* A revision is stored under its own id (`Revision.id` always equals the map key in the Rust), so the
  field is not duplicated; `timeline` (bookkeeping of `revisions()`) and descriptions are dropped.
* `assert_eq!`, `expect` on the modelled path are the `panic` outcome; `debug_assert!`s are not modelled
  (release build). A second `Revision` action in one op is an error (fix a66814b; it used to overwrite the
  op's own first revision).
-/
namespace HeartwoodModel.Identity
open HeartwoodModel.Cob

abbrev Key := Nat
abbrev Sig := Nat
abbrev Blob := Nat

/-- Errors of `ApplyError` that `Identity::op` treats differently, plus the rest. -/
inductive AErr
  | unexpectedState | redacted | missing | invalidSignature | notAuthorized | missingParent
  | duplicateVerdict | docUnchanged | init | git | panic
  deriving DecidableEq, Repr

/-- An identity document: its blob id and its (duplicate-free) delegate list. -/
structure IdDoc where
  blob : Blob
  delegates : List Key
  deriving DecidableEq, Repr

def IdDoc.isDelegate (d : IdDoc) (k : Key) : Bool := d.delegates.contains k

/-- `Doc::majority`. -/
def IdDoc.majority (d : IdDoc) : Nat := d.delegates.length / 2 + 1

/-- `Doc::verify_signature`: the key is a delegate of *this* document and the signature verifies. -/
def IdDoc.verifySignature (V : Key → Sig → Blob → Bool) (d : IdDoc) (k : Key) (s : Sig) (b : Blob) : Bool :=
  d.isDelegate k && V k s b

inductive RState
  | active | accepted | rejected | stale
  deriving DecidableEq, Repr

inductive Verdict
  | accept (sig : Sig)
  | reject
  deriving DecidableEq, Repr

structure Revision where
  /-- `blob` of the Rust is `doc.blob`. -/
  doc : IdDoc
  title : Nat
  state : RState
  author : Key
  parent : Option Id
  verdicts : List (Key × Verdict)
  deriving DecidableEq, Repr

structure Identity where
  current : Id
  root : Id
  /-- latest revision each delegate proposed or accepted. -/
  heads : List (Key × Id)
  /-- `none` = redacted. -/
  revisions : List (Id × Option Revision)
  deriving DecidableEq, Repr

inductive Action
  /-- `doc = none`: the blob is not in the repository / not a valid document. -/
  | revision (title : Nat) (doc : Option IdDoc) (parent : Option Id) (sig : Sig)
  | revisionEdit (revision : Id) (title : Nat)
  | revisionAccept (revision : Id) (sig : Sig)
  | revisionReject (revision : Id)
  | revisionRedact (revision : Id)
  deriving DecidableEq, Repr

structure Op where
  id : Id
  author : Key
  concurrent : Bool
  actions : List Action
  deriving DecidableEq, Repr

/-- `Identity::current()` (`none` = the `expect` panics). -/
def Identity.currentRev (s : Identity) : Option Revision :=
  match get? s.current s.revisions with
  | some (some r) => some r
  | _ => none

/-- Number of `Reject` verdicts (`Revision::rejected().count()`). -/
def rejectedCount (vs : List (Key × Verdict)) : Nat :=
  (vs.filter fun v => v.2 = Verdict.reject).length

/-- The loop "void all other active revisions" of `adopt`, on one map value. -/
def voidActive : Option Revision → Option Revision
  | some r => if r.state = .active then some { r with state := .stale } else some r
  | none => none

/-- The revision map after adopting `r` (stored under `id`): `r` is accepted, every other active
revision becomes stale. -/
def adoptedRevisions (revs : List (Id × Option Revision)) (id : Id) (r : Revision) : List (Id × Option Revision) :=
  (ins id (some { r with state := .accepted }) revs).map fun kv => (kv.1, voidActive kv.2)

/-- `Identity::adopt`: make `id` current if a majority (of the *current* document) of heads point to it;
all other active revisions become stale. -/
def adopt (s : Identity) (cur : Revision) (id : Id) : Except AErr Identity :=
  if s.current = id then .ok s
  else if cur.doc.majority ≤ (s.heads.filter fun h => h.2 = id).length then
    match get? id s.revisions with
    | some (some r) =>
      .ok { s with current := id, revisions := adoptedRevisions s.revisions id r }
    | _ => .error .panic
  else .ok s

/-- `RevisionAccept` arm (with `Revision::accept`). -/
def actAccept (V : Key → Sig → Blob → Bool) (s : Identity) (cur : Revision) (author : Key) (id : Id) (sig : Sig) :
    Except AErr Identity :=
  match get? id s.revisions with
  | none => .error .missing
  | some none => .error .redacted
  | some (some r) =>
    if r.state ≠ .active then .error .unexpectedState
    else if r.parent ≠ some s.current then .error .panic
    else if !cur.doc.verifySignature V author sig r.doc.blob then .error .invalidSignature
    else if (get? author r.verdicts).isSome then .error .duplicateVerdict
    else
      let r' : Revision := { r with verdicts := ins author (.accept sig) r.verdicts }
      adopt { s with revisions := ins id (some r') s.revisions, heads := ins author id s.heads } cur id

/-- `RevisionReject` arm (with `Revision::reject`). -/
def actReject (s : Identity) (author : Key) (id : Id) : Except AErr Identity :=
  match get? id s.revisions with
  | none => .error .missing
  | some none => .error .redacted
  | some (some r) =>
    if r.state ≠ .active then .error .unexpectedState
    else if r.parent ≠ some s.current then .error .panic
    else if (get? author r.verdicts).isSome then .error .duplicateVerdict
    else
      let vs := ins author Verdict.reject r.verdicts
      let st := if rejectedCount vs > r.doc.delegates.length - r.doc.majority then RState.rejected else r.state
      let r' : Revision := { r with verdicts := vs, state := st }
      .ok { s with revisions := ins id (some r') s.revisions }

/-- `RevisionEdit` arm. -/
def actEdit (s : Identity) (author : Key) (id : Id) (title : Nat) : Except AErr Identity :=
  if id = s.current then .error .notAuthorized
  else match get? id s.revisions with
    | none => .error .missing
    | some none => .error .redacted
    | some (some r) =>
      if r.state ≠ .active then .error .unexpectedState
      else if r.author ≠ author then .error .notAuthorized
      else if r.parent ≠ some s.current then .error .panic
      else
        let r' : Revision := { r with title := title }
        .ok { s with revisions := ins id (some r') s.revisions }

/-- `RevisionRedact` arm. -/
def actRedact (s : Identity) (author : Key) (id : Id) : Except AErr Identity :=
  if id = s.current then .error .unexpectedState
  else match get? id s.revisions with
    | none => .error .missing
    | some none => .ok s
    | some (some r) =>
      if r.state = .accepted then .error .unexpectedState
      else if r.author ≠ author then .error .notAuthorized
      else .ok { s with revisions := ins id none s.revisions }

/-- `Revision` arm. -/
def actRevision (V : Key → Sig → Blob → Bool) (s : Identity) (cur : Revision) (entry : Id) (author : Key)
    (title : Nat) (doc : Option IdDoc) (parent : Option Id) (sig : Sig) : Except AErr Identity :=
  -- an op can create at most one revision (`self.revisions.contains_key(&entry)` ⇒ error)
  if (get? entry s.revisions).isSome then .error .init
  else
  match doc with
  | none => .error .git
  | some doc =>
    match parent with
    | none => .error .missingParent
    | some pid =>
      match get? pid s.revisions with
      | none => .error .missing
      | some none => .error .redacted
      | some (some p) =>
        if pid = s.current ∧ doc.blob = p.doc.blob then .error .docUnchanged
        else if !p.doc.verifySignature V author sig doc.blob then .error .invalidSignature
        else
          let st := if pid = s.current then RState.active else RState.stale
          let r : Revision := { doc, title, state := st, author, parent := some pid, verdicts := [(author, .accept sig)] }
          let s' : Identity := { s with heads := ins author entry s.heads, revisions := ins entry (some r) s.revisions }
          if pid = s.current then adopt s' cur entry else .ok s'

/-- `Identity::action`. -/
def action (V : Key → Sig → Blob → Bool) (s : Identity) (a : Action) (entry : Id) (author : Key) :
    Except AErr Identity :=
  match s.currentRev with
  | none => .error .panic
  | some cur =>
    if !cur.doc.isDelegate author then .error .unexpectedState
    else
      match a with
      | .revisionAccept id sig => actAccept V s cur author id sig
      | .revisionReject id => actReject s author id
      | .revisionEdit id title => actEdit s author id title
      | .revisionRedact id => actRedact s author id
      | .revision title doc parent sig => actRevision V s cur entry author title doc parent sig

/-- The loop of `Identity::op`: `UnexpectedState` is skipped when there are concurrent entries,
`Redacted` is always skipped, any other error fails the whole op. -/
def applyActions (V : Key → Sig → Blob → Bool) (entry : Id) (author : Key) (concurrent : Bool) :
    Identity → List Action → Except AErr Identity
  | s, [] => .ok s
  | s, a :: as =>
    match action V s a entry author with
    | .ok s' => applyActions V entry author concurrent s' as
    | .error .unexpectedState =>
      if concurrent then applyActions V entry author concurrent s as else .error .unexpectedState
    | .error .redacted => applyActions V entry author concurrent s as
    | .error e => .error e

/-- `Identity::op` (atomic). -/
def op (V : Key → Sig → Blob → Bool) (s : Identity) (o : Op) : Except AErr Identity :=
  applyActions V o.id o.author o.concurrent s o.actions

/-- `Identity::from_root`. `doc` is the document embedded in the root commit (`Doc::load_at(op.id)`,
`none` = cannot be loaded); `repoId` the blob the repository is named after. -/
def fromRoot (V : Key → Sig → Blob → Bool) (o : Op) (embedded : Option IdDoc) (repoId : Blob) :
    Except AErr Identity :=
  match o.actions with
  | [.revision title doc none sig] =>
    match embedded with
    | none => .error .git
    | some root =>
      if doc.map (·.blob) ≠ some root.blob then .error .init
      else if root.blob ≠ repoId then .error .init
      else match root.delegates with
        | [] => .error .panic
        | founder :: _ =>
          if founder ≠ o.author then .error .init
          else if !root.verifySignature V founder sig root.blob then .error .invalidSignature
          else
            let r : Revision := { doc := root, title, state := .accepted, author := o.author, parent := none,
                                  verdicts := [(o.author, .accept sig)] }
            .ok { current := o.id, root := o.id,
                  heads := root.delegates.foldl (fun m d => ins d o.id m) [],
                  revisions := [(o.id, some r)] }
  | _ => .error .init

/-- `Evaluate::apply` as `S → Entry → Option S`. -/
def apply (V : Key → Sig → Blob → Bool) (s : Identity) (o : Op) : Option Identity :=
  match op V s o with
  | .ok s' => some s'
  | .error _ => none

/-- One evaluator step: a rejected entry is pruned and leaves the state unchanged. -/
def step (V : Key → Sig → Blob → Bool) (s : Identity) (o : Op) : Identity :=
  match op V s o with
  | .ok s' => s'
  | .error _ => s

def eval (V : Key → Sig → Blob → Bool) (s : Identity) (ops : List Op) : Identity := ops.foldl (step V) s

end HeartwoodModel.Identity
