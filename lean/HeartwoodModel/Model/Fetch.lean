/-!
# Model of `radicle_fetch::{pull, clone}` (`FetchState::run`), shared by C01 and C02

Import-free. Follows `crates/radicle-fetch/src/state.rs` stage by stage:

* `CanonicalId` — abstracted to "which identity document anchors the fetch": the document at the local
  canonical `refs/rad/id` if there is one, else the advertised one; no advertised `refs/rad/id` ⇒ `Err`
  (`error::Prepare::Verification` in `CanonicalId::prepare_updates`; it used to be an `expect`, i.e. a panic
  a remote could trigger). Verification of the document itself is not modelled.
  No panic site remains on the modelled path (`fetch_no_panic`); the `expect`s left in `stage.rs` concern
  signed reference names that are not `Qualified` (`refs/<category>/<name>`), which are outside the modelled
  domain. The `panic` outcome is kept so that this can be stated, and because the harness still reports a
  panic of the real code (as an oracle violation).
* delegates / threshold arithmetic (`threshold - 1` for a local delegate, blocked delegates removed,
  the local key blocked on `pull`);
* the special-refs stage (`specialStage`): `SpecialRefs` (ls-refs prefixes by scope, `ref_filter`,
  `ensure_threshold`; the serving side may list references in any order and more than once: the last
  listing of a reference is the one recorded in `state.sigrefs` and queued by `special_refs_updates`) or
  `SigrefsAt` (announced `refs_at`, de-duplicated, last announcement wins; since the announced tips are
  inserted into `state.sigrefs` after the stage, the advertisement plays no role on this path). Its result is
  the set of special references (`rad/id`, `rad/sigrefs` per remote) queued for update — `state.sigrefs` is
  exactly its `rad/sigrefs` part — and the remotes whose signed refs are loaded;
* `RemoteRefs::load` through `Cached::load` (offered tip, else the stored one), with
  `SignedRefs::verify` = signature bit ∧ identity-root binding; any error fails the fetch;
* `DataRefs::prepare_updates` (direct `Allow` updates for every signed ref, prune of stored unsigned refs that
  are not under `refs/rad`);
* the validation loop: per remote, ancestry of the offered tip against the stored one and
  `Cached::validate_remote` on the in-memory refdb; `valid_delegates`; `tips.retain(validated)`; the
  threshold gate; the *sequential*, non-atomic `repository::update` with `Abort / Reject / Allow`.

Representation choices (all exercised by the correspondence check):
* `FetchState::tips` / `FetchState::refs` are keyed by remote resp. by full reference name, and every update
  queued for a remote only names references of that remote's namespace; the model therefore keeps, per remote,
  its list of updates (`blockOf`) and its slice of the in-memory refdb (`memOf`).
* `FetchState::prune(remote)` only removes entries of `remote` that are never read again and that
  `tips.retain(validated)` drops anyway (a pruned remote is never inserted into `remotes`), so it has no
  counterpart in the model.

Opaque parameters (`Env`): the content of every sigrefs commit as read under a key (`blob`), git ancestry
(`anc`), which names are the special ones. Their graphs on the points used are sent with each case by the
harness, computed by the real code. Git transport is abstracted: wanted objects are assumed to arrive.
-/
namespace HeartwoodModel.Fetch

abbrev Key := Nat
abbrev Name := Nat
abbrev Oid := Nat
abbrev Ref := Key × Name

inductive Anc where
  | equal | ahead | behind | diverged
  deriving DecidableEq, Repr

inductive IdRoot where
  /-- `refs/rad/root` is not among the signed refs (accepted by `verify`, see the TODO there). -/
  | absent
  /-- the signed identity root names this repository -/
  | same
  /-- it names another repository, or the object cannot be read -/
  | other
  deriving DecidableEq, Repr

/-- What `SignedRefs::load_at` reads at a sigrefs commit under a given key. -/
structure Blob where
  refs : List (Name × Oid)
  sigOk : Bool
  idRoot : IdRoot
  deriving Repr

/-- `SignedRefs::verify`. -/
def Blob.valid (b : Blob) : Bool := b.sigOk && b.idRoot != IdRoot.other

def lookupName (n : Name) : List (Name × Oid) → Option Oid
  | [] => none
  | (n', o) :: rest => if n' = n then some o else lookupName n rest

def Blob.lookup (b : Blob) (n : Name) : Option Oid := lookupName n b.refs

structure Doc where
  delegates : List Key
  threshold : Nat
  deriving Repr

inductive Policy where
  | abort | reject | allow
  deriving DecidableEq, Repr

inductive Update where
  | direct (k : Key) (n : Name) (target : Oid) (p : Policy)
  | prune (k : Key) (n : Name)
  deriving Repr

/-- The reference an update names. -/
def Update.ref : Update → Ref
  | .direct k n _ _ => (k, n)
  | .prune k n => (k, n)

structure Env where
  nId : Name
  nSig : Name
  isRad : Name → Bool
  /-- `none`: the tree has no readable `refs`/`signature` blobs (any `load_at` error before `verify`). -/
  blob : Key → Oid → Option Blob
  /-- `repository::ancestry old new` for `old ≠ new`; `none`: an object is missing. -/
  anc : Oid → Oid → Option Anc

structure Config where
  localDoc : Option Doc
  advDoc : Option Doc
  localKey : Key
  isClone : Bool
  /-- `none` = `Allowed::All`, `some ks` = `Allowed::Followed`. -/
  scope : Option (List Key)
  blocked : List Key
  refsAt : Option (List (Key × Oid))

inductive Outcome where
  | success (remotes : List Key)
  | failed
  | error
  | panic
  deriving Repr

/-! ## Reference databases (git refdb, in-memory refdb) -/

abbrev Refdb := List (Ref × Oid)

def Refdb.get (db : Refdb) (r : Ref) : Option Oid :=
  match db with
  | [] => none
  | (r', o) :: rest => if r' = r then some o else Refdb.get rest r

def Refdb.del (db : Refdb) (r : Ref) : Refdb := db.filter (fun e => decide (e.1 ≠ r))

def Refdb.set (db : Refdb) (r : Ref) (o : Oid) : Refdb := (r, o) :: Refdb.del db r

/-- One entry per reference, the last listing wins (`BTreeMap`/`HashMap::insert` in listing order). -/
def Refdb.normalise (db : Refdb) : Refdb := db.foldl (fun m e => Refdb.set m e.1 e.2) []

/-- `references_of(remote)`: the references of one namespace. -/
def Refdb.refsOf (db : Refdb) (k : Key) : List (Name × Oid) :=
  db.filterMap (fun e => if e.1.1 = k then some (e.1.2, e.2) else none)

/-! ## Sorted association lists (`BTreeMap<PublicKey, _>`) -/

def insertKey {α : Type} (k : Key) (v : α) : List (Key × α) → List (Key × α)
  | [] => [(k, v)]
  | (k', v') :: rest =>
    if k < k' then (k, v) :: (k', v') :: rest
    else if k = k' then (k, v) :: rest
    else (k', v') :: insertKey k v rest

def lookupKey {α : Type} (k : Key) : List (Key × α) → Option α
  | [] => none
  | (k', v) :: rest => if k' = k then some v else lookupKey k rest

/-- Set insertion (`BTreeSet::insert`) on a duplicate-free list. -/
def setInsert (k : Key) (s : List Key) : List Key := if s.contains k then s else s ++ [k]

/-! ## Loading signed refs -/

/-- `SignedRefsAt::load_at`. -/
def loadAt (env : Env) (k : Key) (tip : Oid) : Except Unit (Oid × Blob) :=
  match env.blob k tip with
  | some b => if b.valid then .ok (tip, b) else .error ()
  | none => .error ()

/-- `SignedRefsAt::load(remote, &handle.repo)`: the stored sigrefs. -/
def localLoad (env : Env) (L : Refdb) (k : Key) : Except Unit (Option (Oid × Blob)) :=
  match L.get (k, env.nSig) with
  | none => .ok none
  | some tip => (loadAt env k tip).map some

/-- `Cached::load`: the tip offered by this fetch (`state.sigrefs`) if there is one, else the stored one. -/
def cachedLoad (env : Env) (L sp : Refdb) (k : Key) : Except Unit (Option (Oid × Blob)) :=
  match sp.get (k, env.nSig) with
  | none => localLoad env L k
  | some tip => (loadAt env k tip).map some

abbrev SignedRefs := List (Key × (Oid × Blob))

/-- `RemoteRefs::load`: missing sigrefs are skipped, any load/verification error fails the fetch. -/
def remoteRefsLoad (env : Env) (L sp : Refdb) : List Key → SignedRefs → Except Unit SignedRefs
  | [], acc => .ok acc
  | k :: ks, acc =>
    match cachedLoad env L sp k with
    | .error e => .error e
    | .ok none => remoteRefsLoad env L sp ks acc
    | .ok (some sr) => remoteRefsLoad env L sp ks (insertKey k sr acc)

/-! ## The special-refs stage -/

def isSpecial (env : Env) (n : Name) : Bool := n == env.nId || n == env.nSig

/-- What the `SpecialRefs` stage keeps of the advertisement: `ls_refs` prefixes, then `ref_filter`. -/
def specialReceived (env : Env) (scope : Option (List Key)) (blocked delegates : List Key) (A : Refdb) :
    Refdb :=
  let asked := match scope with
    | none => A
    | some fs => A.filter (fun e => (fs.contains e.1.1 || delegates.contains e.1.1) && isSpecial env e.1.2)
  asked.filter (fun e => !blocked.contains e.1.1 && isSpecial env e.1.2)

/-- `ensure_threshold` in `SpecialRefs::pre_validate`. -/
def ensureThreshold (delegates : List Key) (recv : Refdb) (threshold : Nat) : Bool :=
  threshold == 0 || delegates.isEmpty || !(recv.length < threshold)

/-- `refs_at.into_iter().collect::<BTreeMap<_, _>>()`: sorted by remote, the last announcement wins. -/
def dedupRefsAt (ras : List (Key × Oid)) : List (Key × Oid) :=
  ras.foldl (fun m r => insertKey r.1 r.2 m) []

structure Stage where
  /-- the special references queued for update (and recorded in the in-memory refdb) -/
  sp : Refdb
  /-- the remotes whose signed refs are loaded -/
  loadKeys : List Key

/-- `run_special_refs` up to (excluding) `RemoteRefs::load`. -/
def specialStage (env : Env) (cfg : Config) (blocked delegates : List Key) (threshold : Nat) (A : Refdb) :
    Except Unit Stage :=
  match cfg.refsAt with
  | none =>
    let recv := specialReceived env cfg.scope blocked delegates A
    -- the distinct references received (`haves` is a set), the last listing of each
    let sp := recv.normalise
    if ensureThreshold delegates sp threshold then
      .ok { sp := sp, loadKeys := recv.map (fun e => e.1.1) ++ delegates }
    else .error ()
  | some ras =>
    -- `SigrefsAt::prepare_updates` does not consult the block list
    let ras := dedupRefsAt ras
    .ok { sp := ras.map (fun r => ((r.1, env.nSig), r.2)), loadKeys := ras.map (·.1) }

/-! ## Updates queued for one remote -/

/-- `refs::special_update`'s policy. -/
def specialPolicy (delegates : List Key) (k : Key) : Policy :=
  if delegates.contains k then .abort else .reject

/-- The update queued for one special reference of a remote, if it was offered. -/
def specialUpdateOf (delegates : List Key) (sp : Refdb) (k : Key) (n : Name) : List Update :=
  match sp.get (k, n) with
  | some o => [Update.direct k n o (specialPolicy delegates k)]
  | none => []

/-- `special_refs_updates` / `SigrefsAt::prepare_updates` for one remote: at most one update per special
reference, `rad/id` first (so that an abort on it happens before anything of the remote is applied). -/
def specialUpdatesOf (env : Env) (delegates : List Key) (sp : Refdb) (k : Key) : List Update :=
  specialUpdateOf delegates sp k env.nId ++ specialUpdateOf delegates sp k env.nSig

/-- The stored references of the remote that `DataRefs::prepare_updates` prunes: not under `refs/rad`
and not among the signed refs. -/
def pruneNames (env : Env) (L : Refdb) (k : Key) (b : Blob) : List Name :=
  ((L.refsOf k).filter (fun e => !env.isRad e.1 && (b.lookup e.1).isNone)).map (·.1)

/-- `DataRefs::prepare_updates` for one remote. -/
def dataUpdatesOf (env : Env) (L : Refdb) (k : Key) (b : Blob) : List Update :=
  b.refs.map (fun e => Update.direct k e.1 e.2 .allow) ++ (pruneNames env L k b).map (Update.prune k)

/-- `FetchState::tips[remote]`. -/
def blockOf (env : Env) (L sp : Refdb) (delegates : List Key) (k : Key) (b : Blob) : List Update :=
  specialUpdatesOf env delegates sp k ++ dataUpdatesOf env L k b

def memApply (mem : Refdb) : Update → Refdb
  | .direct k n t _ => mem.set (k, n) t
  | .prune k n => mem.del (k, n)

/-- The remote's slice of `FetchState::refs`, the in-memory refdb. -/
def memOf (env : Env) (L sp : Refdb) (delegates : List Key) (k : Key) (b : Blob) : Refdb :=
  (blockOf env L sp delegates k b).foldl memApply []

/-! ## Validation -/

/-- `Cached::validate_remote`: no validation failure. -/
def validateRemote (env : Env) (mem : Refdb) (k : Key) (b : Blob) : Bool :=
  let refs := mem.refsOf k
  refs.any (fun e => e.1 == env.nSig) &&
  refs.all (fun e => e.1 == env.nSig || b.lookup e.1 == some e.2) &&
  b.refs.all (fun e => e.1 != env.nSig && refs.any (fun m => m.1 == e.1))

/-- `repository::ancestry`. -/
def ancestry (env : Env) (old new : Oid) : Option Anc :=
  if old = new then some .equal else env.anc old new

/-- What the validation loop decides for one remote. -/
inductive Verdict where
  /-- blocked: skipped -/
  | skipped
  /-- `Err`: the whole fetch fails -/
  | fail
  /-- behind (or, for a non-delegate, diverged): dropped, `valid_delegates` untouched -/
  | stale
  /-- validation failures: dropped, and a delegate is no longer valid -/
  | invalid
  | validated
  deriving DecidableEq, Repr

/-- Comparison of the offered sigrefs tip with the stored one. -/
def preCheck (isDelegate : Bool) : Option Anc → Verdict
  | none => .fail
  | some .behind => .stale
  | some .diverged => if isDelegate then .fail else .stale
  | some .equal => .validated
  | some .ahead => .validated

/-- One iteration of the validation loop of `FetchState::run`. -/
def verdictOf (env : Env) (L sp : Refdb) (blocked delegates : List Key) (k : Key) (tip : Oid) (b : Blob) :
    Verdict :=
  if blocked.contains k then .skipped else
  match localLoad env L k with
  | .error _ => .fail
  | .ok stored =>
    let pre := match stored with
      | none => Verdict.validated
      | some (cur, _) => preCheck (delegates.contains k) (ancestry env cur tip)
    match pre with
    | .validated =>
      if validateRemote env (memOf env L sp delegates k b) k b then .validated else .invalid
    | v => v

structure Loop where
  /-- `remotes`: the validated remotes with their signed refs -/
  remotes : SignedRefs
  /-- `valid_delegates` -/
  valid : List Key

def validateAll (env : Env) (L sp : Refdb) (blocked delegates : List Key) :
    Loop → SignedRefs → Option Loop
  | l, [] => some l
  | l, (k, (tip, b)) :: rest =>
    match verdictOf env L sp blocked delegates k tip b with
    | .fail => none
    | .skipped => validateAll env L sp blocked delegates l rest
    | .stale => validateAll env L sp blocked delegates l rest
    | .invalid =>
      validateAll env L sp blocked delegates
        { l with valid := if delegates.contains k then l.valid.erase k else l.valid } rest
    | .validated =>
      validateAll env L sp blocked delegates
        { remotes := l.remotes ++ [(k, (tip, b))],
          valid := if delegates.contains k then setInsert k l.valid else l.valid } rest

/-! ## `repository::update` -/

inductive Applied where
  | ok (db : Refdb)
  /-- `Err` (e.g. `NonFF` under `Policy::Abort`), with what had been applied before. -/
  | err (db : Refdb)

def Applied.db : Applied → Refdb
  | .ok db => db
  | .err db => db

/-- What `repository::direct` does with a reference, given its stored value. -/
inductive Act where
  | set | keep | fail
  deriving DecidableEq, Repr

def directAct (env : Env) (prev : Option Oid) (target : Oid) (p : Policy) : Act :=
  match prev with
  | none => .set
  | some prev =>
    match ancestry env prev target with
    | none => .fail
    | some .equal => .keep
    | some .ahead => .set
    | some .behind => if p = .allow then .set else .keep
    | some .diverged =>
      match p with
      | .allow => .set
      | .reject => .keep
      | .abort => .fail

/-- `repository::direct` / `repository::prune`. -/
def applyOne (env : Env) (db : Refdb) : Update → Applied
  | .prune k n => .ok (db.del (k, n))
  | .direct k n target p =>
    match directAct env (db.get (k, n)) target p with
    | .set => .ok (db.set (k, n) target)
    | .keep => .ok db
    | .fail => .err db

def applyAll (env : Env) : Refdb → List Update → Applied
  | db, [] => .ok db
  | db, u :: us =>
    match applyOne env db u with
    | .ok db' => applyAll env db' us
    | .err db' => .err db'

/-! ## The whole fetch -/

/-- The block list in force: on `pull` the local key is added. -/
def blockedOf (cfg : Config) : List Key :=
  if cfg.isClone then cfg.blocked else cfg.localKey :: cfg.blocked

def anchorOf (cfg : Config) : Option Doc := cfg.localDoc.orElse (fun _ => cfg.advDoc)

/-- Delegates considered by the fetch: those of the anchor that are not blocked. -/
def delegatesOf (cfg : Config) (anchor : Doc) : List Key :=
  anchor.delegates.filter (fun d => !(blockedOf cfg).contains d)

/-- The threshold in force: one fewer when the local node is a delegate. -/
def thresholdOf (cfg : Config) (anchor : Doc) : Nat :=
  if anchor.delegates.contains cfg.localKey then anchor.threshold - 1 else anchor.threshold

/-- `valid_delegates` before the loop: delegates with a stored `rad/sigrefs`. -/
def storedDelegates (env : Env) (L : Refdb) (delegates : List Key) : List Key :=
  delegates.filter (fun d => (L.get (d, env.nSig)).isSome)

/-- The updates applied in the end: the tips of the validated remotes, in remote order. -/
def finalUpdates (env : Env) (L sp : Refdb) (delegates : List Key) (remotes : SignedRefs) : List Update :=
  remotes.flatMap (fun e => blockOf env L sp delegates e.1 e.2.2)

def fetch (env : Env) (cfg : Config) (L A : Refdb) : Outcome × Refdb :=
  match cfg.advDoc with
  | none => (.error, L)
  | some _ =>
  match anchorOf cfg with
  | none => (.error, L)
  | some anchor =>
    let blocked := blockedOf cfg
    let delegates := delegatesOf cfg anchor
    let threshold := thresholdOf cfg anchor
    match specialStage env cfg blocked delegates threshold A with
    | .error _ => (.error, L)
    | .ok stage =>
      match remoteRefsLoad env L stage.sp stage.loadKeys [] with
      | .error _ => (.error, L)
      | .ok sr =>
        let l0 : Loop := { remotes := [], valid := storedDelegates env L delegates }
        match validateAll env L stage.sp blocked delegates l0 sr with
        | none => (.error, L)
        | some l =>
          if l.valid.length ≥ threshold then
            match applyAll env L (finalUpdates env L stage.sp delegates l.remotes) with
            | .ok db => (.success (l.remotes.map (·.1)), db)
            | .err db => (.error, db)
          else (.failed, L)

end HeartwoodModel.Fetch
