import HeartwoodModel.Model.Patch
import HeartwoodModel.Lemmas.Patch
import HeartwoodModel.Lemmas.CobDag
import HeartwoodModel.Props.C06
/-!
# C08 — A patch is merged only by a threshold of agreeing delegates

Theorems about `Model/Patch.lean` (`Patch::action` `Merge` / `Lifecycle` arms, `Patch::authorization`,
`Patch::op`, evaluation of a linearised history).

Reading fixed in advance (DESIGN §6 C08): "have recorded a merge" = an applied `Merge` action by that
delegate is present in the evaluated history (`Recorded`).
-/
namespace HeartwoodModel.Patch
open HeartwoodModel.Cob

/-! ### single action -/

/-- **merged_needs_threshold** (per action, full strength: any state, action, actor, document).
Whenever an authorised action moves the patch into `Merged{r,c}`, that action is a merge by a delegate
of the document the op refers to, whose commit passed the default-branch ancestry check, and at that
moment at least `threshold` actors have `(r,c)` as their recorded merge. -/
theorem merged_needs_threshold {p p' : Patch} {a : Action} {e : Id} {au : Actor} {doc : Doc} {r : Id}
    {c : Commit} (h : opAction p a e au doc = .ok p') (hm : p'.state = .merged r c)
    (hne : p.state ≠ .merged r c) :
    doc.isDelegate au = true ∧ (∃ r0 c0, a = .merge r0 c0 .yes ∧ get? au p'.merges = some (r0, c0)) ∧
      doc.threshold ≤ countMerges p'.merges (r, c) := by
  unfold opAction at h
  split at h
  · cases h
  · rename_i hauth
    rcases action_state_merges h with ⟨hs, _⟩ | ⟨l, _, _, hs, _⟩ | ⟨r0, c0, rfl, hms, hs⟩
    · exact absurd (hs ▸ hm) hne
    · rcases hs with hs | hs | hs <;> rw [hs] at hm <;> cases hm
    · refine ⟨authorization_merge hauth, ⟨r0, c0, rfl, by rw [hms]; exact get?_ins_self _ _ _⟩, ?_⟩
      rcases hs with hs | ⟨r', c', hs, hc⟩ | ⟨cs, hs⟩
      · exact absurd (hs ▸ hm) hne
      · rw [hs] at hm; cases hm; exact hc
      · rw [hs] at hm; cases hm
  · cases h
  · cases h; exact absurd hm hne

/-- **merged_is_lifecycle_stable**: once merged, a lifecycle action does not change the state
(it cannot move the patch back to open, draft or archived). -/
theorem merged_is_lifecycle_stable {p p' : Patch} {l : Lifecycle} {e : Id} {au : Actor} {doc : Doc}
    {r : Id} {c : Commit} (h : opAction p (.lifecycle l) e au doc = .ok p')
    (hm : p.state = .merged r c) : p'.state = .merged r c := by
  unfold opAction at h
  split at h
  · cases h
  · rcases action_state_merges h with ⟨hs, _⟩ | ⟨_, _, hv, _, _⟩ | ⟨_, _, hl, _⟩
    · rw [hs]; exact hm
    · rcases hv with hv | hv | hv <;> rw [hv] at hm <;> cases hm
    · cases hl
  · cases h
  · cases h; exact hm

/-- **merged_only_left_by_merge**: the only action that can change a `Merged` state is `Merge`. -/
theorem merged_only_left_by_merge {p p' : Patch} {a : Action} {e : Id} {au : Actor} {doc : Doc} {r : Id}
    {c : Commit} (h : opAction p a e au doc = .ok p') (hm : p.state = .merged r c)
    (hne : p'.state ≠ .merged r c) : ∃ r0 c0, a = .merge r0 c0 .yes := by
  unfold opAction at h
  split at h
  · cases h
  · rcases action_state_merges h with ⟨hs, _⟩ | ⟨_, _, hv, _, _⟩ | ⟨r0, c0, hl, _⟩
    · exact absurd (hs ▸ hm) hne
    · rcases hv with hv | hv | hv <;> rw [hv] at hm <;> cases hm
    · exact ⟨r0, c0, hl⟩
  · cases h
  · cases h; exact absurd hm hne

/-! ### whole operations and histories -/

/-- An applied merge of `(r,c)` by `a` is recorded in `hist`: some op of `hist` authored by `a`, who is
a delegate of the document that op refers to, contains `Merge{r,c}` whose commit was on `a`'s default
branch when it was evaluated. -/
def Recorded (hist : List Op) (a : Actor) (r : Id) (c : Commit) : Prop :=
  ∃ o ∈ hist, ∃ d, o.author = a ∧ o.doc = some d ∧ d.isDelegate a = true ∧
    Action.merge r c .yes ∈ o.actions

/-- The conclusion of the property for a history: some op of the history refers to a document whose
threshold is reached by distinct delegates that each recorded a merge of `(r,c)`. -/
def ThresholdReached (hist : List Op) (r : Id) (c : Commit) : Prop :=
  ∃ o ∈ hist, ∃ d, o.doc = some d ∧ ∃ as : List Actor, as.Nodup ∧ d.threshold ≤ as.length ∧
    ∀ a ∈ as, Recorded hist a r c

theorem Recorded.mono {h1 h2 : List Op} (hs : ∀ o ∈ h1, o ∈ h2) {a : Actor} {r : Id} {c : Commit}
    (h : Recorded h1 a r c) : Recorded h2 a r c := by
  obtain ⟨o, ho, d, h⟩ := h
  exact ⟨o, hs o ho, d, h⟩

theorem ThresholdReached.mono {h1 h2 : List Op} (hs : ∀ o ∈ h1, o ∈ h2) {r : Id} {c : Commit}
    (h : ThresholdReached h1 r c) : ThresholdReached h2 r c := by
  obtain ⟨o, ho, d, hd, as, hn, hl, hr⟩ := h
  exact ⟨o, hs o ho, d, hd, as, hn, hl, fun a ha => (hr a ha).mono hs⟩

/-- Invariant of evaluation (ghost history `hist` = root and applied entries so far). -/
structure Inv (hist : List Op) (p : Patch) : Prop where
  keys : (p.merges.map (·.1)).Nodup
  prov : ∀ a r c, (a, (r, c)) ∈ p.merges → Recorded hist a r c
  merged : ∀ r c, p.state = .merged r c → ThresholdReached hist r c

theorem Inv.mono {h1 h2 : List Op} (hs : ∀ o ∈ h1, o ∈ h2) {p : Patch} (h : Inv h1 p) : Inv h2 p :=
  ⟨h.keys, fun a r c hm => (h.prov a r c hm).mono hs, fun r c hm => (h.merged r c hm).mono hs⟩

theorem Inv.congr {hist : List Op} {p p' : Patch} (hs : p'.state = p.state) (hm : p'.merges = p.merges)
    (h : Inv hist p) : Inv hist p' :=
  ⟨hm ▸ h.keys, fun a r c hx => h.prov a r c (hm ▸ hx), fun r c hx => h.merged r c (hs ▸ hx)⟩

theorem filter_keys_nodup {ms : List (Actor × (Id × Commit))} (k : Id × Commit)
    (h : (ms.map (·.1)).Nodup) : (((ms.filter fun m => m.2 = k)).map (·.1)).Nodup :=
  List.Nodup.sublist (List.Sublist.map _ List.filter_sublist) h

/-- An applied action preserves the invariant (the action belongs to op `o` of the history). -/
theorem Inv.action {hist : List Op} {o : Op} {doc : Doc} {p p' : Patch} {a : Action}
    (ho : o ∈ hist) (hd : o.doc = some doc) (ha : a ∈ o.actions) (hdel : ∀ r c anc, a = .merge r c anc →
      doc.isDelegate o.author = true)
    (h : action p a o.id o.author doc = .ok p') (inv : Inv hist p) : Inv hist p' := by
  rcases action_state_merges h with ⟨hs, hm⟩ | ⟨l, _, _, hs, hm⟩ | ⟨r0, c0, rfl, hms, hs⟩
  · exact inv.congr hs hm
  · refine ⟨hm ▸ inv.keys, fun a r c hx => inv.prov a r c (hm ▸ hx), fun r c hx => ?_⟩
    rcases hs with hs | hs | hs <;> rw [hs] at hx <;> cases hx
  · have hrec : Recorded hist o.author r0 c0 := ⟨o, ho, doc, rfl, hd, hdel _ _ _ rfl, ha⟩
    have hkeys : (p'.merges.map (·.1)).Nodup := by rw [hms]; exact keys_ins_nodup inv.keys
    have hprov : ∀ a r c, (a, (r, c)) ∈ p'.merges → Recorded hist a r c := by
      intro a r c hx
      rw [hms] at hx
      rcases mem_ins hx with hx | hx
      · cases hx; exact hrec
      · exact inv.prov a r c hx
    refine ⟨hkeys, hprov, fun r c hx => ?_⟩
    rcases hs with hs | ⟨r', c', hs, hc⟩ | ⟨cs, hs⟩
    · exact inv.merged r c (hs ▸ hx)
    · rw [hs] at hx; cases hx
      refine ⟨o, ho, doc, hd, (p'.merges.filter fun m => m.2 = (r, c)).map (·.1),
        filter_keys_nodup _ hkeys, by simpa [countMerges] using hc, fun a hmem => ?_⟩
      obtain ⟨x, hx, rfl⟩ := List.mem_map.mp hmem
      have := List.mem_filter.mp hx
      have h2 : x.2 = (r, c) := of_decide_eq_true this.2
      exact hprov x.1 r c (by rw [← h2]; exact this.1)
    · rw [hs] at hx; cases hx

theorem Inv.opAction {hist : List Op} {o : Op} {doc : Doc} {p p' : Patch} {a : Action}
    (ho : o ∈ hist) (hd : o.doc = some doc) (ha : a ∈ o.actions)
    (h : opAction p a o.id o.author doc = .ok p') (inv : Inv hist p) : Inv hist p' := by
  unfold Patch.opAction at h
  split at h
  · cases h
  · rename_i hauth
    refine Inv.action ho hd ha ?_ h inv
    intro r c anc he
    subst he
    exact authorization_merge hauth
  · cases h
  · cases h; exact inv

theorem Inv.applyActions {hist : List Op} {o : Op} {doc : Doc} (ho : o ∈ hist) (hd : o.doc = some doc)
    (as : List Action) (hsub : ∀ a ∈ as, a ∈ o.actions) {p p' : Patch}
    (h : applyActions o.id o.author doc p as = .ok p') (inv : Inv hist p) : Inv hist p' := by
  induction as generalizing p with
  | nil => simp only [Patch.applyActions] at h; cases h; exact inv
  | cons a as ih =>
    simp only [Patch.applyActions] at h
    split at h
    · rename_i p1 h1
      exact ih (fun a ha => hsub a (List.mem_cons_of_mem _ ha)) h
        (Inv.opAction ho hd (hsub a List.mem_cons_self) h1 inv)
    · cases h

/-- An applied op preserves the invariant. -/
theorem Inv.op {hist : List Op} {o : Op} {p p' : Patch} (ho : o ∈ hist) (h : op p o = .ok p')
    (inv : Inv hist p) : Inv hist p' := by
  unfold Patch.op at h
  split at h
  · cases h
  · rename_i doc hd
    exact Inv.applyActions ho hd o.actions (fun _ h => h) h
      (Inv.congr (p := p) (p' := { p with timeline := p.timeline ++ [o.id] }) rfl rfl inv)

theorem Inv.rootActions {hist : List Op} {o : Op} {doc : Doc} (ho : o ∈ hist) (hd : o.doc = some doc)
    (as : List Action) (hsub : ∀ a ∈ as, a ∈ o.actions) {p p' : Patch}
    (h : rootActions o.id o.author doc p as = .ok p') (inv : Inv hist p) : Inv hist p' := by
  induction as generalizing p with
  | nil => simp only [Patch.rootActions] at h; cases h; exact inv
  | cons a as ih =>
    have hsub' : ∀ a ∈ as, a ∈ o.actions := fun a ha => hsub a (List.mem_cons_of_mem _ ha)
    simp only [Patch.rootActions] at h
    split at h
    · cases h
    · rename_i hauth
      split at h
      · rename_i p1 h1
        refine ih hsub' h (Inv.action ho hd (hsub a List.mem_cons_self) ?_ h1 inv)
        intro r c anc he
        subst he
        exact authorization_merge hauth
      · cases h
    · cases h
    · exact ih hsub' h inv

/-- The state built by `from_root` satisfies the invariant for the history `[root]`. -/
theorem Inv.fromRoot {root : Op} {p0 : Patch} (h : fromRoot root = .ok p0) : Inv [root] p0 := by
  unfold Patch.fromRoot at h
  split at h
  · cases h
  · rename_i doc hd
    split at h
    · rename_i d t rest hact
      refine Inv.rootActions (List.mem_singleton.mpr rfl) hd rest ?_ h ?_
      · intro a ha; rw [hact]; exact List.mem_cons_of_mem _ (List.mem_cons_of_mem _ ha)
      · refine ⟨by simp [Patch.new], ?_, ?_⟩
        · intro a r c hx; simp [Patch.new] at hx
        · intro r c hx; simp [Patch.new] at hx
    · cases h

theorem Inv.eval {hist : List Op} {p : Patch} (ops : List Op) (inv : Inv hist p) :
    Inv (hist ++ applied p ops) (eval p ops) := by
  induction ops generalizing hist p with
  | nil => simpa [Patch.eval, Patch.applied] using inv
  | cons o os ih =>
    simp only [Patch.eval, List.foldl_cons, Patch.applied, Patch.step]
    cases hop : Patch.op p o with
    | error e => exact ih inv
    | ok p1 =>
      simp only
      have h1 : Inv (hist ++ [o]) p1 :=
        Inv.op (by simp) hop (inv.mono (fun x hx => List.mem_append_left _ hx))
      have := ih h1
      simpa [Patch.eval, List.append_assoc] using this

/-- **merged_needs_threshold_history** (full strength: every root op, every sequence of entries in
whatever order the evaluator linearised them, rejected entries pruned). If the evaluated patch is
`Merged{r,c}` then some applied op refers to a document whose threshold is reached by *distinct*
actors, each of which is a delegate of the document its own op refers to and has an applied
`Merge{r,c}` in the history whose commit was on its default branch when evaluated. -/
theorem merged_needs_threshold_history {root : Op} {p0 : Patch} (h0 : fromRoot root = .ok p0)
    (ops : List Op) {r : Id} {c : Commit} (hm : (eval p0 ops).state = .merged r c) :
    ThresholdReached (root :: applied p0 ops) r c :=
  ((Inv.fromRoot h0).eval ops).merged r c hm

/-- **Every recorded merge is by a delegate on its default branch** (history form of the delegate and
ancestry checks): each entry of the final `merges` map is `Recorded`. -/
theorem merges_recorded {root : Op} {p0 : Patch} (h0 : fromRoot root = .ok p0) (ops : List Op)
    {a : Actor} {r : Id} {c : Commit} (hm : (a, (r, c)) ∈ (eval p0 ops).merges) :
    Recorded (root :: applied p0 ops) a r c :=
  ((Inv.fromRoot h0).eval ops).prov a r c hm

theorem merged_stable_actions {e : Id} {au : Actor} {doc : Doc} {r : Id} {c : Commit} (as : List Action)
    (hno : ∀ r0 c0 anc, Action.merge r0 c0 anc ∉ as) {q p' : Patch}
    (h : applyActions e au doc q as = .ok p') (hqs : q.state = .merged r c) : p'.state = .merged r c := by
  induction as generalizing q with
  | nil => simp only [Patch.applyActions] at h; cases h; exact hqs
  | cons a as ih =>
    simp only [Patch.applyActions] at h
    split at h
    · rename_i p1 h1
      refine ih (fun r0 c0 anc hx => hno r0 c0 anc (List.mem_cons_of_mem _ hx)) h ?_
      apply Classical.byContradiction
      intro hne
      obtain ⟨r0, c0, rfl⟩ := merged_only_left_by_merge h1 hqs hne
      exact hno r0 c0 .yes List.mem_cons_self
    · cases h

/-- Ops without a `Merge` action keep a merged patch merged. -/
theorem merged_stable_op {p p' : Patch} {o : Op} {r : Id} {c : Commit} (h : op p o = .ok p')
    (hno : ∀ r0 c0 anc, Action.merge r0 c0 anc ∉ o.actions) (hm : p.state = .merged r c) :
    p'.state = .merged r c := by
  unfold Patch.op at h
  split at h
  · cases h
  · exact merged_stable_actions o.actions hno h hm

/-- **merged_is_stable_history**: evaluating any entries none of which contains a `Merge` action
(lifecycle, edits, reviews, …) never moves a merged patch back to open, draft or archived. -/
theorem merged_is_stable_history {p : Patch} (ops : List Op) {r : Id} {c : Commit}
    (hno : ∀ o ∈ ops, ∀ r0 c0 anc, Action.merge r0 c0 anc ∉ o.actions) (hm : p.state = .merged r c) :
    (eval p ops).state = .merged r c := by
  induction ops generalizing p with
  | nil => simpa [Patch.eval] using hm
  | cons o os ih =>
    simp only [Patch.eval, List.foldl_cons, Patch.step]
    have hno' : ∀ o ∈ os, ∀ r0 c0 anc, Action.merge r0 c0 anc ∉ o.actions :=
      fun o' ho' => hno o' (List.mem_cons_of_mem _ ho')
    cases hop : op p o with
    | error e => exact ih hno' hm
    | ok p1 => exact ih hno' (merged_stable_op hop (hno o List.mem_cons_self) hm)

/-! ### every change graph (the generic evaluator of `Model/ChangeGraph.lean`) -/

section Graph
open HeartwoodModel.Dag HeartwoodModel.ChangeGraph

/-- `Evaluate::init` for patches. -/
def graphInit (o : Op) : Option Patch :=
  match fromRoot o with
  | .ok p => some p
  | .error _ => none

/-- The evaluation of a change graph is the linear evaluation of a list of its entries (pairwise
distinct keys, none of them the root, valid signatures), in the order the evaluator visited them. -/
theorem evaluate_is_eval {g g' : Dag Op} (hwf : g.Wf) (hac : Acyclic g.dependentsOf)
    {sigOk : Op → Bool} {ts : Op → Nat} {fuel : Nat} {root : K} {p : Patch}
    (h : evaluate sigOk ts graphInit patchApplyM fuel g root = .ok p g') :
    ∃ (rn : Node Op) (p0 : Patch) (calls : List (Call Op)), g.get root = some rn ∧ fromRoot rn.value = .ok p0 ∧
      (calls.map (·.1)).Nodup ∧ root ∉ calls.map (·.1) ∧
      (∀ c ∈ calls, ∃ n0, g.get c.1 = some n0 ∧ c.2.1.value = n0.value ∧ sigOk n0.value = true) ∧
      p = eval p0 (calls.map (·.2.1.value)) := by
  obtain ⟨rn, p0, calls, hr, _, hi, hn, hroot, hv, hs⟩ := evaluate_linear hwf hac h
  have hi' : fromRoot rn.value = .ok p0 := by
    unfold graphInit at hi
    split at hi
    · rename_i q hq; cases hi; exact hq
    · cases hi
  -- drop the calls whose signature check failed: they do not touch the state
  let f : Call Op → Option Op := fun c => if sigOk c.2.1.value then some c.2.1.value else none
  have hrun : p = (calls.filterMap f).foldl step p0 := by
    rw [hs]
    apply runCalls_filterMap
    intro s c
    simp only [evalFilter, f]
    cases hsg : sigOk c.2.1.value <;> simp [patchApplyM]
  refine ⟨rn, p0, calls.filter (fun c => sigOk c.2.1.value), hr, hi', ?_, ?_, ?_, ?_⟩
  · exact (List.Sublist.map _ List.filter_sublist).nodup hn
  · intro hx
    exact hroot ((List.Sublist.map _ List.filter_sublist).subset hx)
  · intro c hc
    obtain ⟨hc1, hc2⟩ := List.mem_filter.mp hc
    obtain ⟨n0, h1, h2⟩ := hv c hc1
    exact ⟨n0, h1, h2, by rw [← h2]; exact hc2⟩
  · rw [hrun]
    show _ = (List.map _ _).foldl step p0
    congr 1
    clear hs hrun hv hroot hn
    induction calls with
    | nil => rfl
    | cons c cs ih =>
      simp only [List.filterMap_cons, List.filter_cons, f]
      cases hsg : sigOk c.2.1.value
      · simpa using ih
      · simpa using ih

/-- **merged_needs_threshold_dag** — the property for the state produced by the real evaluation
algorithm (`ChangeGraph::evaluate`: depth-first topological order with `(timestamp, oid)` tie-breaks,
signature check, pruning of rejected entries and their dependents) on EVERY well-formed acyclic change
graph: if the evaluated patch is `Merged{r,c}`, then some entries of the graph (each with a valid
signature, evaluated once) form a history in which the threshold of an applied op's document is
reached by distinct delegates, each with an applied, ancestry-checked `Merge{r,c}`. -/
theorem merged_needs_threshold_dag {g g' : Dag Op} (hwf : g.Wf) (hac : Acyclic g.dependentsOf)
    {sigOk : Op → Bool} {ts : Op → Nat} {fuel : Nat} {root : K} {p : Patch} {r : Id} {c : Commit}
    (h : evaluate sigOk ts graphInit patchApplyM fuel g root = .ok p g') (hm : p.state = .merged r c) :
    ∃ (rootOp : Op) (p0 : Patch) (hist : List Op), (∃ rn, g.get root = some rn ∧ rn.value = rootOp) ∧
      fromRoot rootOp = .ok p0 ∧
      (∀ o ∈ hist, ∃ k n, g.get k = some n ∧ n.value = o ∧ sigOk o = true) ∧
      p = eval p0 hist ∧ ThresholdReached (rootOp :: applied p0 hist) r c := by
  obtain ⟨rn, p0, calls, hr, hi, _, _, hv, hp⟩ := evaluate_is_eval hwf hac h
  refine ⟨rn.value, p0, calls.map (·.2.1.value), ⟨rn, hr, rfl⟩, hi, ?_, hp, ?_⟩
  · intro o ho
    obtain ⟨c', hc', rfl⟩ := List.mem_map.mp ho
    obtain ⟨n0, h1, h2, h3⟩ := hv c' hc'
    exact ⟨c'.1, n0, h1, h2.symm, by rw [h2]; exact h3⟩
  · exact merged_needs_threshold_history hi _ (hp ▸ hm)

/-- **merged_is_stable_dag**: appending (anywhere the evaluator may put them) entries without a `Merge`
action never un-merges: stated on the linear run the evaluation amounts to (`evaluate_is_eval`). -/
theorem merged_is_stable_dag {g g' : Dag Op} (hwf : g.Wf) (hac : Acyclic g.dependentsOf)
    {sigOk : Op → Bool} {ts : Op → Nat} {fuel : Nat} {root : K} {p : Patch}
    (h : evaluate sigOk ts graphInit patchApplyM fuel g root = .ok p g') :
    ∃ (p0 : Patch) (hist : List Op), p = eval p0 hist ∧
      ∀ pre post, hist = pre ++ post → (∀ o ∈ post, ∀ r0 c0 anc, Action.merge r0 c0 anc ∉ o.actions) →
        ∀ r c, (eval p0 pre).state = .merged r c → p.state = .merged r c := by
  obtain ⟨rn, p0, calls, _, _, _, _, _, hp⟩ := evaluate_is_eval hwf hac h
  refine ⟨p0, _, hp, fun pre post hsplit hno r c hm => ?_⟩
  rw [hp, hsplit]
  have : eval p0 (pre ++ post) = eval (eval p0 pre) post := by simp [Patch.eval, List.foldl_append]
  rw [this]
  exact merged_is_stable_history post hno hm

end Graph

/-! ### non-vacuity -/

section Examples

def doc2 : Doc := { delegates := [0, 1, 2], threshold := 2 }
def rootOp : Op := { id := 0, author := 3, doc := some doc2, actions := [.revision 1, .edit 1] }
def m0 : Op := { id := 1, author := 0, doc := some doc2, actions := [.merge 0 7 .yes] }
def m1 : Op := { id := 2, author := 1, doc := some doc2, actions := [.merge 0 7 .yes] }
def m2 : Op := { id := 3, author := 2, doc := some doc2, actions := [.merge 0 8 .yes] }
def stranger : Op := { id := 4, author := 3, doc := some doc2, actions := [.merge 0 7 .yes] }
def lc : Op := { id := 5, author := 3, doc := some doc2, actions := [.lifecycle .archived] }
def p0 : Patch := Patch.new 1 0 3 1

example : fromRoot rootOp = .ok p0 := rfl
/-- one merge of two needed: still open; the author (not a delegate) cannot merge. -/
example : (eval p0 [m0, stranger, m2]).state = .opened [] := by decide
/-- two agreeing delegates: merged; hypotheses of `merged_needs_threshold_history` are satisfiable. -/
example : (eval p0 [m0, m2, m1]).state = .merged 0 7 := by decide
/-- and a later lifecycle action by the author leaves it merged (`merged_is_stable_history`). -/
example : (eval p0 [m0, m2, m1, lc]).state = .merged 0 7 := by decide
/-- the hypotheses of the per-action theorem are satisfiable. -/
example : ∃ p p', opAction p (.merge 0 7 .yes) 2 1 doc2 = .ok p' ∧ p'.state = .merged 0 7 ∧
    p.state ≠ .merged 0 7 := ⟨eval p0 [m0], _, rfl, by decide, by decide⟩

end Examples

end HeartwoodModel.Patch
