import HeartwoodModel.Props.C05
import HeartwoodModel.Props.C23
import HeartwoodModel.Lemmas.CobAtomic
/-!
# C06 — Rejected collaborative-object changes leave no trace in the state

Generic theorem about `ChangeGraph::evaluate` (`Model/ChangeGraph.lean`): for every object type whose
`apply` is *atomic* (an `Err` leaves `self` as it was — what the `fix: apply COB operations
atomically` commit establishes for `Issue::op`, `Patch::op`, `Identity::op`, `Thread::op`) and does not
look at the concurrent entries, the evaluated state and history equal the evaluation of the history
from which the rejected changes and everything depending on them were removed.

The per-type instances are at the end of this file (`issue_rejected_leaves_no_trace`,
`patch_rejected_leaves_no_trace`, from `Lemmas/CobAtomic.lean` of the C04/C07/C08 models; for `Identity`
only atomicity holds: `identity_atomic`, `identity_not_sibling_independent`).
-/
set_option linter.unusedSimpArgs false
set_option linter.unusedVariables false
namespace HeartwoodModel.ChangeGraph
open HeartwoodModel.Dag
variable {E S : Type}

theorem evalFilter_atomic {sigOk : E → Bool} {applyM : S → K → E → List (K × E) → S × Bool}
    (h : Atomic applyM) : FilterAtomic (evalFilter sigOk applyM) := by
  intro s k n sibs
  unfold evalFilter
  split
  · intro _; rfl
  · exact h s k n.value _

theorem evalFilter_local {sigOk : E → Bool} {applyM : S → K → E → List (K × E) → S × Bool}
    (h : SiblingIndependent applyM) : FilterLocal (evalFilter sigOk applyM) := by
  intro s k n n' sibs sibs' hv
  unfold evalFilter
  rw [hv]
  split
  · rfl
  · exact h s k n'.value _ _

/-- Which changes are dropped: exactly those at which the signature check or `apply` failed (the
`Break` answers, `rejected`) together with every change that depends on one of them; the surviving
history is again closed and keeps every entry and parent link. -/
theorem evaluate_drops_rejected_and_dependents {g g' : Dag E} (hwf : g.Wf) (hac : Acyclic g.dependentsOf)
    {sigOk : E → Bool} {ts : E → Nat} {init : E → Option S}
    {applyM : S → K → E → List (K × E) → S × Bool} {fuel : Nat} {root : K} {s : S}
    (h : evaluate sigOk ts init applyM fuel g root = .ok s g') :
    ∃ rejected : List K,
      g'.Wf ∧
      (∀ x, g'.contains x = true ↔ g.contains x = true ∧ ¬ ∃ b ∈ rejected, x = b ∨ g.Desc b x) ∧
      (∀ x n', g'.get x = some n' → ∃ n, g.get x = some n ∧ n'.value = n.value ∧ n'.deps = n.deps) := by
  unfold evaluate at h
  cases hr : g.get root with
  | none => simp [hr] at h
  | some rn =>
    simp only [hr] at h
    split at h
    · simp at h
    · cases hi : init rn.value with
      | none => simp [hi] at h
      | some s0 =>
        simp only [hi] at h
        cases hp : g.pruneBy fuel rn.dependents (evalFilter sigOk applyM) (chronological ts) s0 with
        | none => simp [hp] at h
        | some r =>
          obtain ⟨g1, s1⟩ := r
          simp only [hp, EvalOut.ok.injEq] at h
          obtain ⟨rfl, rfl⟩ := h
          obtain ⟨tr, htr⟩ := pruneBy_traced hp
          obtain ⟨h1, h2, h3⟩ := prune_removes_exactly_descendants hwf hac htr
          refine ⟨brokenOf tr, h1, h2, ?_⟩
          intro x n' hx
          obtain ⟨n, hn, hv, hd, _⟩ := h3 x n' hx
          exact ⟨n, hn, hv, hd⟩

/-- **A rejected change never partially takes effect**: evaluating the surviving history `g'` on its
own gives the same state and the same history (`.fuel` is excluded by `evaluate_pruned_fuel`). -/
theorem evaluate_eq_evaluate_pruned {g g' : Dag E} (hwf : g.Wf) (hac : Acyclic g.dependentsOf)
    {sigOk : E → Bool} {ts : E → Nat} {init : E → Option S}
    {applyM : S → K → E → List (K × E) → S × Bool}
    (hatomic : Atomic applyM) (hsib : SiblingIndependent applyM) {fuel : Nat} {root : K} {s : S}
    (h : evaluate sigOk ts init applyM fuel g root = .ok s g') (fuel' : Nat) :
    evaluate sigOk ts init applyM fuel' g' root = .ok s g' ∨
    evaluate sigOk ts init applyM fuel' g' root = .fuel := by
  unfold evaluate at h
  cases hr : g.get root with
  | none => simp [hr] at h
  | some rn =>
    simp only [hr] at h
    by_cases hs : (!sigOk rn.value) = true
    · simp [hs] at h
    · simp only [hs, if_false] at h
      cases hi : init rn.value with
      | none => simp [hi] at h
      | some s0 =>
        simp only [hi] at h
        cases hp : g.pruneBy fuel rn.dependents (evalFilter sigOk applyM) (chronological ts) s0 with
        | none => simp [hp] at h
        | some r =>
          obtain ⟨g1, s1⟩ := r
          simp only [hp, EvalOut.ok.injEq] at h
          obtain ⟨rfl, rfl⟩ := h
          obtain ⟨R, hR, hRcl, hsound, hrun⟩ := pruneBy_idem hwf hac (evalFilter_atomic hatomic)
            (evalFilter_local hsib) (chronological_total_preorder ts) hp
          have hrootR : root ∉ R := by
            intro hx
            obtain ⟨_, b, hb, h1⟩ := hsound root hx
            have hrb : g.Desc root b := .step (by rw [Dag.dependentsOf_of_get hr]; exact hb)
            rcases h1 with rfl | h1
            · exact hac _ hrb
            · exact hac _ (hrb.append h1)
          have hg'r : g'.get root = some (rn.strip R) := by rw [hR.get root]; simp [hrootR, hr]
          unfold evaluate
          simp only [hg'r, Node.strip_value, hs, if_false, hi, Node.strip_dependents]
          cases hp' : g'.pruneBy fuel' (rn.dependents.filter fun y => decide (y ∉ R))
              (evalFilter sigOk applyM) (chronological ts) s0 with
          | none => exact .inr rfl
          | some r' =>
            have := hrun fuel' r' hp'
            subst this
            exact .inl rfl

/-- With the fuel the driver uses, the evaluation of the surviving history does not run out. -/
theorem evaluate_pruned_fuel {g g' : Dag E} (hwf : g.Wf) (hac : Acyclic g.dependentsOf)
    {sigOk : E → Bool} {ts : E → Nat} {init : E → Option S}
    {applyM : S → K → E → List (K × E) → S × Bool}
    (hatomic : Atomic applyM) (hsib : SiblingIndependent applyM) {fuel : Nat} {root : K} {s : S}
    (h : evaluate sigOk ts init applyM fuel g root = .ok s g') :
    evaluate sigOk ts init applyM (evalFuel g' root) g' root = .ok s g' := by
  obtain ⟨_, hwf', _, _⟩ := evaluate_drops_rejected_and_dependents hwf hac h
  rcases evaluate_eq_evaluate_pruned hwf hac hatomic hsib h (evalFuel g' root) with h1 | h1
  · exact h1
  · exact absurd h1 (evaluate_fuel_sufficient hwf' sigOk ts init applyM root)

/-- A functional `apply : … → Option S` is atomic by construction. -/
theorem applyOfOption_atomic (apply : S → K → E → List (K × E) → Option S) :
    Atomic (applyOfOption apply) := by
  intro s k e sibs
  unfold applyOfOption
  cases apply s k e sibs <;> simp

/-! ### why both hypotheses are needed -/

def EvalOut.state? : EvalOut S E → Option S
  | .ok s _ => some s
  | _ => none

def EvalOut.keys? : EvalOut S E → Option (List K)
  | .ok _ g => some g.keys
  | _ => none

/-- History `0 ← 1`; entry value = 1 marks the change whose second action is rejected. -/
def exPair : Dag Nat :=
  ((Dag.empty.node 0 0).node 1 1).addEdges [(1, 0)]

/-- The shape of `Issue::op` before the `fix:`: the first action (append the id to the state) is applied
in place, then the second action fails. -/
def nonAtomicApply (s : List K) (k : K) (e : Nat) (_ : List (K × Nat)) : List K × Bool :=
  if e = 1 then (s ++ [k], false) else (s ++ [k], true)

/-- **Without atomicity the statement is false** (pre-`fix:` behaviour, witness in the corpus): the
rejected change `1` is pruned from the history, yet its first action stays in the state. -/
theorem evaluate_pruned_nonatomic_counterexample :
    let r := evaluate (fun _ => true) id (fun _ => some [0]) nonAtomicApply 100 exPair 0
    r.keys? = some [0] ∧ r.state? = some [0, 1] ∧
    (evaluate (fun _ => true) id (fun _ => some [0]) nonAtomicApply 100
      (Dag.empty.node 0 0) 0).state? = some [0] := by
  decide

/-- History `0 ← 1 ← {2, 3}` mirroring the confirmed witness `corpus/C04/concurrent-unexpected-state.case`
(root `r`, proposal `p`, then the siblings `e1` = id 2 and `x` = id 3, evaluated in this order): entry
value 1 = `e1`, an op that hits `UnexpectedState`; value 2 = `x`, always rejected. -/
def exFork : Dag Nat :=
  ((((Dag.empty.node 0 0).node 1 0).node 2 1).node 3 2).addEdges [(1, 0), (2, 1), (3, 1)]

/-- `Identity::op`: `UnexpectedState` is an error only `if concurrent.is_empty()`. -/
def siblingApply (s : List K) (k : K) (e : Nat) (sibs : List (K × Nat)) : List K × Bool :=
  if e = 2 then (s, false)
  else if e = 1 ∧ sibs.isEmpty then (s, false)
  else (s ++ [k], true)

/-- **Without sibling independence the statement is false, even for an atomic `apply`** (KNOWN FINDING
`identity-concurrent-sibling-pruned`, confirmed on the real `Identity::op`): in the whole history `e1` is
accepted (`x`, rejected only afterwards, is still concurrent to it) and the surviving history is
`{0, 1, 2}`; evaluated on its own, `e1` has no concurrent entry and is rejected. -/
theorem evaluate_pruned_counterexample_sibling_dependent :
    Atomic siblingApply ∧
    let r := evaluate (fun _ => true) (fun _ => 0) (fun _ => some [0]) siblingApply 100 exFork 0
    r.keys? = some [0, 1, 2] ∧ r.state? = some [0, 1, 2] ∧
    (evaluate (fun _ => true) (fun _ => 0) (fun _ => some [0]) siblingApply 100
      ((((Dag.empty.node 0 0).node 1 0).node 2 1).addEdges [(1, 0), (2, 1)]) 0).state? = some [0, 1] := by
  refine ⟨?_, by decide⟩
  intro s k e sibs
  unfold siblingApply
  split
  · intro _; rfl
  · split
    · intro _; rfl
    · simp

/-! ### non-vacuity of `evaluate_eq_evaluate_pruned` -/

/-- `0 ← 1 ← 3`, `0 ← 2`; entry value 1 = rejected. Change `1` is rejected, `3` depends on it. -/
def exHist : Dag Nat :=
  ((((Dag.empty.node 0 0).node 1 1).node 2 0).node 3 0).addEdges [(1, 0), (2, 0), (3, 1)]

def atomicApply (s : List K) (k : K) (e : Nat) (_ : List (K × Nat)) : List K × Bool :=
  if e = 1 then (s, false) else (s ++ [k], true)

theorem atomicApply_ok : Atomic atomicApply ∧ SiblingIndependent atomicApply := by
  constructor
  · intro s k e sibs
    unfold atomicApply
    split <;> simp
  · intro s k e sibs sibs'; rfl

theorem exHist_wf : exHist.Wf := by
  apply build_wf _ _ (by decide)
  apply node_wf (node_wf (node_wf (node_wf empty_wf _ (by decide)) _ (by decide)) _ (by decide)) _
  decide

theorem exHist_acyclic : Acyclic exHist.dependentsOf := by
  apply acyclic_of_rank id
  intro u v hv
  have hb := (addEdges_spec [(1, 0), (2, 0), (3, 1)]
    ((((Dag.empty.node 0 0).node 1 1).node 2 0).node 3 0 : Dag Nat)).dependents u v
  have hv' := hb.mp hv
  rcases hv' with h1 | ⟨_, h1⟩
  · exfalso
    have hno : ∀ x, ((((Dag.empty.node 0 0).node 1 1).node 2 0).node 3 0 : Dag Nat).dependentsOf x = [] := by
      intro x
      simp only [Dag.dependentsOf, node_get]
      split <;> rename_i h
      · split at h
        · simp at h; subst h; rfl
        · split at h
          · simp at h; subst h; rfl
          · split at h
            · simp at h; subst h; rfl
            · split at h
              · simp at h; subst h; rfl
              · simp [Dag.empty, Dag.get, mget] at h
      · rfl
    rw [hno u] at h1
    simp at h1
  · simp only [List.mem_cons, Prod.mk.injEq, List.not_mem_nil, or_false] at h1
    simp only [id]
    rcases h1 with ⟨rfl, rfl⟩ | ⟨rfl, rfl⟩ | ⟨rfl, rfl⟩ <;> decide

/-- The hypotheses are satisfiable and the conclusion is what the model computes: the full history
evaluates to state `[0, 2]` with history `{0, 2}`, and so does the surviving history on its own. -/
example :
    let r := evaluate (fun _ => true) id (fun _ => some [0]) atomicApply (evalFuel exHist 0) exHist 0
    exHist.Wf ∧ Acyclic exHist.dependentsOf ∧ Atomic atomicApply ∧ SiblingIndependent atomicApply ∧
    r.keys? = some [0, 2] ∧ r.state? = some [0, 2] :=
  ⟨exHist_wf, exHist_acyclic, atomicApply_ok.1, atomicApply_ok.2, by decide, by decide⟩

/-! ### per-type corollaries (models `Model/Issue.lean`, `Model/Patch.lean`, `Model/Identity.lean`) -/

/-- `Issue::apply` as the evaluator sees it: the entry is the decoded `Op`; `concurrent` is ignored
(`Issue::action` takes `_concurrent`). -/
def issueApplyM (s : Issue.Issue) (_ : K) (e : Issue.Op) (_ : List (K × Issue.Op)) : Issue.Issue × Bool :=
  (Issue.step s e, (Issue.apply s e).isSome)

theorem issue_atomic : Atomic issueApplyM := by
  intro s k e sibs h
  simp only [issueApplyM] at h ⊢
  cases hop : Issue.op s e with
  | error err => exact (op_atomic_issue s e).1 err hop
  | ok s' => simp [Issue.apply, hop] at h

theorem issue_sibling_independent : SiblingIndependent issueApplyM := fun _ _ _ _ _ => rfl

/-- **C06 for issues**: a rejected issue change never partially takes effect. -/
theorem issue_rejected_leaves_no_trace {g g' : Dag Issue.Op} (hwf : g.Wf) (hac : Acyclic g.dependentsOf)
    {sigOk : Issue.Op → Bool} {ts : Issue.Op → Nat} {init : Issue.Op → Option Issue.Issue}
    {fuel : Nat} {root : K} {s : Issue.Issue}
    (h : evaluate sigOk ts init issueApplyM fuel g root = .ok s g') :
    evaluate sigOk ts init issueApplyM (evalFuel g' root) g' root = .ok s g' :=
  evaluate_pruned_fuel hwf hac issue_atomic issue_sibling_independent h

/-- `Patch::apply` as the evaluator sees it (`Patch::action` takes `_concurrent`). -/
def patchApplyM (s : Patch.Patch) (_ : K) (e : Patch.Op) (_ : List (K × Patch.Op)) : Patch.Patch × Bool :=
  (Patch.step s e, (Patch.apply s e).isSome)

theorem patch_atomic : Atomic patchApplyM := by
  intro s k e sibs h
  simp only [patchApplyM] at h ⊢
  cases hop : Patch.op s e with
  | error err => exact (op_atomic_patch s e).1 err hop
  | ok s' => simp [Patch.apply, hop] at h

theorem patch_sibling_independent : SiblingIndependent patchApplyM := fun _ _ _ _ _ => rfl

/-- **C06 for patches**: a rejected patch change never partially takes effect. -/
theorem patch_rejected_leaves_no_trace {g g' : Dag Patch.Op} (hwf : g.Wf) (hac : Acyclic g.dependentsOf)
    {sigOk : Patch.Op → Bool} {ts : Patch.Op → Nat} {init : Patch.Op → Option Patch.Patch}
    {fuel : Nat} {root : K} {s : Patch.Patch}
    (h : evaluate sigOk ts init patchApplyM fuel g root = .ok s g') :
    evaluate sigOk ts init patchApplyM (evalFuel g' root) g' root = .ok s g' :=
  evaluate_pruned_fuel hwf hac patch_atomic patch_sibling_independent h

/-- `Identity::apply` as the evaluator sees it: `concurrent.is_empty()` is read off the siblings. -/
def identityApplyM (V : Identity.Key → Identity.Sig → Identity.Blob → Bool) (s : Identity.Identity) (_ : K)
    (e : Identity.Op) (sibs : List (K × Identity.Op)) : Identity.Identity × Bool :=
  let e' : Identity.Op := { e with concurrent := !sibs.isEmpty }
  (Identity.step V s e', (Identity.apply V s e').isSome)

/-- `Identity::op` is atomic (since `fix: apply COB operations atomically`)… -/
theorem identity_atomic (V : Identity.Key → Identity.Sig → Identity.Blob → Bool) : Atomic (identityApplyM V) := by
  intro s k e sibs h
  simp only [identityApplyM] at h ⊢
  cases hop : Identity.op V s { e with concurrent := !sibs.isEmpty } with
  | error err => exact (op_atomic_identity V s _).1 err hop
  | ok s' => simp [Identity.apply, hop] at h

/-- …but NOT sibling independent: an op by a non-delegate hits `UnexpectedState`, which fails the op
only when there is no concurrent entry. Hence `evaluate_eq_evaluate_pruned` does not apply to
identities, and its conclusion is false for them
(`evaluate_pruned_counterexample_sibling_dependent`, KNOWN FINDING `identity-concurrent-sibling-pruned`). -/
theorem identity_not_sibling_independent :
    ¬ SiblingIndependent (identityApplyM fun _ _ _ => true) := by
  intro h
  let doc : Identity.IdDoc := { blob := 0, delegates := [0] }
  let s : Identity.Identity :=
    { current := 0, root := 0, heads := [],
      revisions := [(0, some { doc, title := 0, state := .accepted, author := 0, parent := none, verdicts := [] })] }
  let e : Identity.Op := { id := 1, author := 1, concurrent := false, actions := [.revisionReject 0] }
  have := h s 1 e [] [(2, e)]
  revert this
  decide

end HeartwoodModel.ChangeGraph
