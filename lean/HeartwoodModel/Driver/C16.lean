/-! Driver entry for property C16 (stub: not implemented yet). -/
namespace HeartwoodModel.Driver.C16

def run (_args : List String) : String := "unimplemented"

end HeartwoodModel.Driver.C16
