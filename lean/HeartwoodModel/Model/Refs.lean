/-!
# Model of `radicle/src/storage/refs.rs` (C20)

Everything is modelled on **bytes** (`Nat`s, intended `< 256`): the refs blob is a byte string, Rust
`String`s are their UTF-8 bytes. This is exact for the code modelled here because

* `BufRead::lines` splits at the byte `\n`, validates each chunk as UTF-8 (`utf8Valid`, a port of the
  table in `core::str::validations`) and strips `\n` / `\r\n`;
* `str::split_once(' ')`, `str::split('/')`, `str::ends_with(".lock")` are byte-level operations for
  ASCII patterns;
* `git_ref_format_core::check::ref_format` only ever compares *ASCII* characters (and looks at the
  first / last / cyclically-next character of a component); in valid UTF-8 every byte of a
  multi-byte character is `≥ 0x80`, so "character `i` is the ASCII character `c`" is the same as
  "byte `i'` is `c`", first character ASCII ⇔ first byte ASCII, likewise for the last one;
* `String: Ord` (the `BTreeMap` key order) is byte-wise lexicographic.

`Oid`s are lists of 40 nibbles (`< 16`). `git2::Oid::from_str` (libgit2 `git_oid_fromstrn`) accepts
1..=40 hex digits of either case and pads with zero nibbles on the right.

The `BTreeMap<RefString, Oid>` is a list sorted strictly by `ltB` on the names; `insert` is the ordered
insertion with replacement, `canonical` iterates in list order (= key order).

Opaque parameters of `verify` / `loadAt`: `sigVerify key msg sig` (Ed25519) and
`identityAt oid : Option Rid` (`repo.identity_doc_at(oid)` followed by `RepoId::from(doc.blob)`).
-/
namespace HeartwoodModel.Refs

abbrev Bytes := List Nat
abbrev Name := Bytes
/-- 40 nibbles. -/
abbrev Oid := List Nat

/-! ## byte strings -/

/-- Byte-wise lexicographic `<` (`str: Ord`). -/
def ltB : Bytes → Bytes → Bool
  | [], [] => false
  | [], _ :: _ => true
  | _ :: _, [] => false
  | a :: as, b :: bs => decide (a < b) || (a == b && ltB as bs)

/-- `s.split(sep)`: always at least one piece. -/
def splitOn (sep : Nat) : Bytes → List Bytes
  | [] => [[]]
  | c :: cs =>
    if c = sep then [] :: splitOn sep cs
    else match splitOn sep cs with
      | [] => [[c]]
      | x :: xs => (c :: x) :: xs

/-- `s.split_once(sep)`: split at the first occurrence. -/
def splitOnce (sep : Nat) : Bytes → Option (Bytes × Bytes)
  | [] => none
  | c :: cs =>
    if c = sep then some ([], cs)
    else match splitOnce sep cs with
      | none => none
      | some (a, b) => some (c :: a, b)

/-- `xs.ends_with(suf)` -/
def endsWith (xs suf : Bytes) : Bool :=
  suf.length ≤ xs.length && xs.drop (xs.length - suf.length) == suf

/-! ## UTF-8 validation (`core::str::from_utf8`) as a state machine

State `(need, lo, hi)`: `need` continuation bytes are still expected, the next one in `lo..=hi`.
`need = 0` ⇒ normalised to `(0, 0, 0)`. -/

abbrev U8State := Nat × Nat × Nat

def utf8Start : U8State := (0, 0, 0)

def utf8Step (s : U8State) (b : Nat) : Option U8State :=
  match s with
  | (0, _, _) =>
    if b < 0x80 then some utf8Start
    else if 0xC2 ≤ b ∧ b ≤ 0xDF then some (1, 0x80, 0xBF)
    else if b = 0xE0 then some (2, 0xA0, 0xBF)
    else if b = 0xED then some (2, 0x80, 0x9F)
    else if 0xE1 ≤ b ∧ b ≤ 0xEF then some (2, 0x80, 0xBF)
    else if b = 0xF0 then some (3, 0x90, 0xBF)
    else if 0xF1 ≤ b ∧ b ≤ 0xF3 then some (3, 0x80, 0xBF)
    else if b = 0xF4 then some (3, 0x80, 0x8F)
    else none
  | (n + 1, lo, hi) =>
    if lo ≤ b ∧ b ≤ hi then (if n = 0 then some utf8Start else some (n, 0x80, 0xBF)) else none

def utf8Run (s : U8State) : Bytes → Option U8State
  | [] => some s
  | b :: bs =>
    match utf8Step s b with
    | none => none
    | some s' => utf8Run s' bs

def utf8Valid (bs : Bytes) : Bool := utf8Run utf8Start bs == some utf8Start

/-! ## `git_ref_format_core::check::ref_format` with `allow_onelevel = true, allow_pattern = false` -/

/-- Characters rejected wherever they occur: NUL `\` `~` `^` `:` `?` `[` `*` space, ASCII control
(`< 0x20`, `0x7f`). (`*` is rejected at the end of the loop since patterns are not allowed.) -/
def badByte (c : Nat) : Bool :=
  c < 0x20 || c == 0x7f || c == 0x20 || c == 0x5c || c == 0x7e || c == 0x5e || c == 0x3a || c == 0x3f ||
  c == 0x5b || c == 0x2a

/-- Does the pair `(a, b)` occur at adjacent positions? -/
def hasPair (a b : Nat) : Bytes → Bool
  | x :: y :: rest => (x == a && y == b) || hasPair a b (y :: rest)
  | _ => false

/-- The loop `x.chars().zip(x.chars().cycle().skip(1))` pairs every character with its *cyclic*
successor (the last one with the first one). -/
def cyclic (x : Bytes) : Bytes :=
  match x with
  | [] => []
  | c :: _ => x ++ [c]

def dotLock : Bytes := [0x2e, 0x6c, 0x6f, 0x63, 0x6b]

/-- One `/`-separated component. -/
def validComponent (x : Bytes) : Bool :=
  !x.isEmpty && !endsWith x dotLock && x.all (fun c => !badByte c) &&
  !hasPair 0x2e 0x2e (cyclic x) && !hasPair 0x40 0x7b (cyclic x) &&
  x.head? != some 0x2e && x.getLast? != some 0x2e

/-- `RefString::try_from(name).is_ok()` -/
def validRef (s : Name) : Bool :=
  s != [] && s != [0x40] && s != [0x2e] && (splitOn 0x2f s).all validComponent

/-! ## object ids -/

def hexVal? (c : Nat) : Option Nat :=
  if 0x30 ≤ c ∧ c ≤ 0x39 then some (c - 0x30)
  else if 0x61 ≤ c ∧ c ≤ 0x66 then some (c - 0x61 + 10)
  else if 0x41 ≤ c ∧ c ≤ 0x46 then some (c - 0x41 + 10)
  else none

/-- Lower-case hex digit of a nibble. -/
def hexDigit (n : Nat) : Nat := if n < 10 then 0x30 + n else 0x61 + (n - 10)

def hexVals? : Bytes → Option (List Nat)
  | [] => some []
  | c :: cs =>
    match hexVal? c, hexVals? cs with
    | some v, some vs => some (v :: vs)
    | _, _ => none

/-- `Oid::from_str`: 1..=40 hex digits, zero-padded on the right. -/
def oidFromStr (s : Bytes) : Option Oid :=
  if s.length = 0 ∨ 40 < s.length then none
  else match hexVals? s with
    | none => none
    | some vs => some (vs ++ List.replicate (40 - vs.length) 0)

/-- `oid.to_string()` -/
def oidToStr (o : Oid) : Bytes := o.map hexDigit

def isZero (o : Oid) : Bool := o.all (· == 0)

/-- Well-formed object id: 40 nibbles. -/
def WfOid (o : Oid) : Prop := o.length = 40 ∧ ∀ n ∈ o, n < 16

instance (o : Oid) : Decidable (WfOid o) := by unfold WfOid; exact inferInstance

/-! ## `Refs` -/

abbrev Refs := List (Name × Oid)

/-- `BTreeMap::insert` -/
def insert (k : Name) (v : Oid) : Refs → Refs
  | [] => [(k, v)]
  | (k', v') :: rest =>
    if ltB k k' then (k, v) :: (k', v') :: rest
    else if k = k' then (k, v) :: rest
    else (k', v') :: insert k v rest

/-- `BTreeMap::get` -/
def lookup (k : Name) : Refs → Option Oid
  | [] => none
  | (k', v) :: rest => if k = k' then some v else lookup k rest

/-- Strictly increasing keys. -/
def Sorted (r : Refs) : Prop := r.Pairwise (fun a b => ltB a.1 b.1 = true)

/-- `Refs::canonical` -/
def canonical : Refs → Bytes
  | [] => []
  | (name, oid) :: rest => oidToStr oid ++ [0x20] ++ name ++ [0x0a] ++ canonical rest

/-- `read_until(b'\n')` repeatedly: the chunks of the input, each without its terminator, and whether
it was terminated by `\n` (only the last one may not be). -/
def rawLines : Bytes → List (Bytes × Bool)
  | [] => []
  | c :: cs =>
    if c = 0x0a then ([], true) :: rawLines cs
    else match rawLines cs with
      | [] => [([c], false)]
      | (l, t) :: rest => (c :: l, t) :: rest

/-- `Lines::next` after the read: drop `\r` if the chunk ended in `\r\n`. -/
def stripCr (l : Bytes) (terminated : Bool) : Bytes :=
  if terminated && l.getLast? == some 0x0d then l.dropLast else l

inductive CanonError
  | io            -- a line is not valid UTF-8
  | invalidFormat -- no space in the line
  | invalidRef    -- `RefString::try_from` failed
  | invalidOid    -- `Oid::from_str` failed
  deriving Repr, DecidableEq

/-- One iteration of the loop of `from_canonical`: `none` = the line is skipped (zero oid). -/
def parseLine (l : Bytes × Bool) : Except CanonError (Option (Name × Oid)) :=
  -- `read_line` validates the chunk *with* its terminator; `\n` is ASCII, so that is the same
  if !utf8Valid l.1 then .error .io
  else match splitOnce 0x20 (stripCr l.1 l.2) with
    | none => .error .invalidFormat
    | some (oid, name) =>
      if !validRef name then .error .invalidRef
      else match oidFromStr oid with
        | none => .error .invalidOid
        | some o => if isZero o then .ok none else .ok (some (name, o))

def parseLines (acc : Refs) : List (Bytes × Bool) → Except CanonError Refs
  | [] => .ok acc
  | l :: ls =>
    match parseLine l with
    | .error e => .error e
    | .ok none => parseLines acc ls
    | .ok (some (n, o)) => parseLines (insert n o acc) ls

/-- `Refs::from_canonical` -/
def fromCanonical (bs : Bytes) : Except CanonError Refs := parseLines [] (rawLines bs)

/-- Building a `Refs` from arbitrary pairs (`BTreeMap::from_iter` / repeated `insert`). -/
def ofList (ps : List (Name × Oid)) : Refs := ps.foldl (fun acc p => insert p.1 p.2 acc) []

/-! ## `SignedRefs` -/

/-- `refs/rad/root` -/
def identityRoot : Name := [0x72, 0x65, 0x66, 0x73, 0x2f, 0x72, 0x61, 0x64, 0x2f, 0x72, 0x6f, 0x6f, 0x74]

structure SignedRefs where
  refs : Refs
  signature : Bytes
  id : Bytes
  deriving Repr, DecidableEq

inductive VerifyError
  | missingBlob          -- `repo.blob_at` failed for `refs` or `signature`
  | signatureLength      -- `Signature::try_from(&[u8])`: not 64 bytes
  | canonical (e : CanonError)
  | invalidSignature
  | missingIdentity
  | mismatchedIdentity
  deriving Repr, DecidableEq

/-- Environment of a verification: the two opaque functions and the local repository id. -/
structure Env where
  /-- `PublicKey::verify(msg, sig).is_ok()` -/
  sigVerify : Bytes → Bytes → Bytes → Bool
  /-- `repo.identity_doc_at(oid).ok().map(|d| RepoId::from(d.blob))` -/
  identityAt : Oid → Option Oid
  /-- `repo.id()` -/
  localId : Oid

/-- `SignedRefs::verify` -/
def verify (env : Env) (sr : SignedRefs) : Except VerifyError Unit :=
  if !env.sigVerify sr.id (canonical sr.refs) sr.signature then .error .invalidSignature
  else match lookup identityRoot sr.refs with
    | none => .ok ()
    | some root =>
      match env.identityAt root with
      | none => .error .missingIdentity
      | some remote => if remote = env.localId then .ok () else .error .mismatchedIdentity

/-- `SignedRefs::load_at` (= `SignedRefsAt::load_at`): the contents of the `refs` and `signature`
blobs of the sigrefs commit (`none` = `blob_at` failed), the remote whose namespace it is. -/
def loadAt (env : Env) (remote : Bytes) (refsBlob sigBlob : Option Bytes) : Except VerifyError SignedRefs :=
  match refsBlob, sigBlob with
  | some rb, some sb =>
    if sb.length ≠ 64 then .error .signatureLength
    else match fromCanonical rb with
      | .error e => .error (.canonical e)
      | .ok refs =>
        let sr : SignedRefs := { refs, signature := sb, id := remote }
        match verify env sr with
        | .error e => .error e
        | .ok () => .ok sr
  | _, _ => .error .missingBlob

end HeartwoodModel.Refs
