import HeartwoodModel.Model.Fetch
/-!
# One level above `radicle_fetch`: `radicle_node::worker::fetch::Handle::{new, fetch}`

`Handle::new` looks at `storage.contains(rid)`: an existing repository is pulled in place; otherwise the
clone goes into a temporary directory next to the storage (`Storage::lock_repository`), which `fetch` then
renames into the storage (`mv`). Modelled: the node-level outcome and whether a repository directory exists
in the node's storage afterwards.

`workerFetch` is the current code (since c80785f): `radicle_fetch::clone(..)?` — an `Err` returns early and
the temporary directory is dropped (deleted) — and the temporary clone is renamed into storage (`mv`) iff the
result is `FetchResult::Success`; `FetchResult::Failed` becomes `Err(Validation)` with the temporary
directory dropped. `workerFetchBefore_c80785f` is the code before that repair: `mv` ran UNCONDITIONALLY
before `Failed` was inspected, so a clone that failed the delegate threshold left a (reference-less)
repository directory in storage.
-/
namespace HeartwoodModel.FetchWorker
open HeartwoodModel.Fetch

structure WResult where
  /-- `Ok(FetchResult)` of the worker, i.e. `FetchResult::Success` at the node API -/
  success : Bool
  /-- a repository directory for the rid exists in the node's storage afterwards -/
  dirPresent : Bool
  deriving DecidableEq, Repr

def isSuccess : Outcome → Bool
  | .success _ => true
  | _ => false

/-- The current `Handle::fetch`; `existed` = the repository was in storage before (pull). The temporary
clone is moved into storage iff the fetch succeeded. -/
def workerFetch (existed : Bool) (o : Outcome) : WResult :=
  if existed then { success := isSuccess o, dirPresent := true }
  else { success := isSuccess o, dirPresent := isSuccess o }

/-- `Handle::fetch` before the repair c80785f. -/
def workerFetchBefore_c80785f (existed : Bool) (o : Outcome) : WResult :=
  if existed then { success := isSuccess o, dirPresent := true }
  else
    match o with
    | .success _ => { success := true, dirPresent := true }
    | .failed => { success := false, dirPresent := true }
    | .error => { success := false, dirPresent := false }
    | .panic => { success := false, dirPresent := false }

/-- The configuration a node-level fetch runs `radicle_fetch` with in the harness scenarios: the node's own
key owns no namespace and is no delegate; seeding scope `all`; nobody blocked; no announced `refs_at`. -/
def nodeConfig (cfg : Config) (nodeKey : Key) : Config :=
  { cfg with localKey := nodeKey, scope := none, blocked := [], refsAt := none }

end HeartwoodModel.FetchWorker
