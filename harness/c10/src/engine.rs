//! Shared engine of the C10 / C11 / C29 harnesses (included with `#[path]` by c11 and c29).
//!
//! Drives the REAL `radicle_node::service::Service` in-process through `radicle_node::test::peer::Peer`
//! exactly as `crates/radicle-node/src/tests.rs` does, on a case given as text (syntax: see
//! `lean/HeartwoodModel/Driver/C10.lean`), and returns, per op, the canonical projection of what the
//! real code did: announcement writes `(peer, announcer, kind, repo, ts[, inventory])`, disconnect
//! requests with a reason class, and the rows of the gossip store. No signatures, no wall clock.
//!
//! Environment the engine provides (all derived from the case text):
//! * node ids are small numbers; `0` is the local node, every id has a fixed key pair;
//! * repository ids are small numbers mapped to fixed `RepoId`s;
//! * storage is `MockStorage` behind a thin wrapper (`VStorage`) whose `repositories()` lists the
//!   repositories in rid order and reports `synced_at` for repositories whose local namespace has a
//!   `rad/sigrefs` (what the real `Storage::repositories` does by reading git);
//! * config: `PeerConfig::Static` (no automatic connection attempts), relay `Always`/`Never` from the case,
//!   rate limits out of reach;
//! * every fetch the service starts is answered at once with a connection error.
#![allow(dead_code)]

use std::collections::{BTreeMap, HashMap, HashSet};
use std::net::{IpAddr, Ipv4Addr, SocketAddr};
use std::path::{Path, PathBuf};
use std::str::FromStr;

use crossbeam_channel as chan;
use radicle::crypto::test::signer::MockSigner;
use radicle::identity::doc::{Doc, Visibility};
use radicle::identity::{Did, Project, RepoId};
use radicle::node::config::{PeerConfig, RateLimit, Relay};
use radicle::node::device::Device;
use radicle::node::seed::SyncedAt;
use radicle::node::{Alias, ConnectOptions, Features, UserAgent};
use radicle::storage::refs::Refs;
use radicle::storage::{
    Error as StorageError, ReadStorage, RefUpdate, RepositoryError, RepositoryInfo, WriteStorage,
};
use radicle::test::storage::{MockRepository, MockStorage};
use radicle_node::prelude::*;
use radicle_node::service::gossip::Store as _;
use radicle_node::service::io::Io;
use radicle_node::service::message::*;
use radicle_node::service::{self, session, Command, ServiceState as _};
use radicle_node::test::peer::{self, Peer};
use radicle_node::worker;
use radicle_node::{Link, PROTOCOL_VERSION};

pub const N_RIDS: u64 = 6;
pub const N_NODES: u64 = 8;
pub const GOSSIP_MAX_AGE: u64 = 1_209_600_000;
pub const I64MAX: u64 = i64::MAX as u64;

// ---------------------------------------------------------------------------------------------
// Case syntax
// ---------------------------------------------------------------------------------------------

#[derive(Clone, Debug, PartialEq, Eq)]
pub enum Kind {
    Node,
    Inv,
    Refs,
}

impl Kind {
    pub fn ch(&self) -> char {
        match self {
            Kind::Node => 'n',
            Kind::Inv => 'i',
            Kind::Refs => 'r',
        }
    }
}

#[derive(Clone, Debug)]
pub struct AnnSpec {
    pub node: u64,
    pub kind: Kind,
    pub repo: u64,
    pub ts: u64,
    pub sig_ok: bool,
    pub inv: Vec<u64>,
    /// refs non-empty (refs) / SEED feature (node)
    pub flag: bool,
    /// forged by re-using the signature bytes of the genuine announcement delivered by op number
    /// `reuse` of the same case (`sig` field `r<op>`); `sig_ok` is then false
    pub reuse: Option<usize>,
}

#[derive(Clone, Debug, PartialEq, Eq)]
pub struct RepoSpec {
    pub rid: u64,
    pub present: bool,
    pub private: bool,
    pub delegates: Vec<u64>,
    pub allow: Vec<u64>,
    pub own: Option<(u64, u64)>,
}

impl RepoSpec {
    pub fn visible_to(&self, p: u64) -> bool {
        !self.private || self.allow.contains(&p) || self.delegates.contains(&p)
    }
}

#[derive(Clone, Debug)]
pub enum Op {
    Connect(u64, bool),
    Disconnect(u64),
    Recv(u64, AnnSpec),
    /// filter: None = all ones
    Subscribe(u64, Option<Vec<u64>>, u64, u64),
    Elapse(u64),
    Tick(u64),
    SetClock(u64),
    AnnounceRefs(u64),
    AddInventory(u64),
    AnnounceInventory,
    Seed(u64),
    Unseed(u64),
    Fetched(u64, u64, bool, bool),
    Restart,
    SetRepo(RepoSpec),
    /// the address book learns a node (environment)
    KnowNode(u64, u64),
}

fn num(s: &str) -> Option<u64> {
    if s.is_empty() || !s.bytes().all(|b| b.is_ascii_digit()) {
        return None;
    }
    s.parse().ok()
}

fn flag(s: &str) -> Option<bool> {
    match s {
        "0" => Some(false),
        "1" => Some(true),
        _ => None,
    }
}

fn plus(s: &str) -> Option<Vec<u64>> {
    if s == "-" {
        return Some(vec![]);
    }
    s.split('+').map(num).collect()
}

pub fn parse_op(tok: &str) -> Option<Op> {
    let f: Vec<&str> = tok.split(',').collect();
    Some(match f.as_slice() {
        ["c", p, l] => Op::Connect(num(p)?, match *l {
            "i" => true,
            "o" => false,
            _ => return None,
        }),
        ["d", p] => Op::Disconnect(num(p)?),
        ["a", p, node, k, repo, ts, sig, payload] => {
            let kind = match *k {
                "n" => Kind::Node,
                "i" => Kind::Inv,
                "r" => Kind::Refs,
                _ => return None,
            };
            let repo = num(repo)?;
            let (inv, fl) = match kind {
                Kind::Inv => {
                    if repo != 0 {
                        return None;
                    }
                    (plus(payload)?, false)
                }
                Kind::Refs => (vec![], flag(payload)?),
                Kind::Node => {
                    if repo != 0 {
                        return None;
                    }
                    (vec![], flag(payload)?)
                }
            };
            let (sig_ok, reuse) = match sig.strip_prefix('r') {
                Some(k) => (false, Some(num(k)? as usize)),
                None => (flag(sig)?, None),
            };
            Op::Recv(num(p)?, AnnSpec { node: num(node)?, kind, repo, ts: num(ts)?, sig_ok, inv, flag: fl, reuse })
        }
        ["s", p, filt, since, until] => {
            let filt = if *filt == "*" { None } else { Some(plus(filt)?) };
            Op::Subscribe(num(p)?, filt, num(since)?, num(until)?)
        }
        ["e", dt] => Op::Elapse(num(dt)?),
        ["k", t] => Op::Tick(num(t)?),
        ["j", t] => Op::SetClock(num(t)?),
        ["r", rid] => Op::AnnounceRefs(num(rid)?),
        ["i", rid] => Op::AddInventory(num(rid)?),
        ["I"] => Op::AnnounceInventory,
        ["z", rid] => Op::Seed(num(rid)?),
        ["u", rid] => Op::Unseed(num(rid)?),
        ["f", rid, p, clone, upd] => Op::Fetched(num(rid)?, num(p)?, flag(clone)?, flag(upd)?),
        ["R"] => Op::Restart,
        ["n", nid, ts] => Op::KnowNode(num(nid)?, num(ts)?),
        ["p", rid, present, private, dels, allow, oid, ctime] => {
            let ctime = num(ctime)?;
            let own = if *oid == "-" { None } else { Some((num(oid)?, ctime)) };
            Op::SetRepo(RepoSpec {
                rid: num(rid)?,
                present: flag(present)?,
                private: flag(private)?,
                delegates: plus(dels)?,
                allow: plus(allow)?,
                own,
            })
        }
        _ => return None,
    })
}

pub fn parse_case(input: &str) -> Option<(u64, bool, Vec<Op>)> {
    let mut toks = input.split(' ');
    let t0 = num(toks.next()?)?;
    let relay = flag(toks.next()?)?;
    let ops = toks.map(parse_op).collect::<Option<Vec<_>>>()?;
    Some((t0, relay, ops))
}

// ---------------------------------------------------------------------------------------------
// Observations
// ---------------------------------------------------------------------------------------------

#[derive(Clone, Debug, PartialEq, Eq, PartialOrd, Ord)]
pub struct AnnObs {
    pub node: u64,
    pub kind: char,
    pub repo: u64,
    pub ts: u64,
}

impl AnnObs {
    pub fn show(&self) -> String {
        format!("{}.{}.{}.{}", self.node, self.kind, self.repo, self.ts)
    }
}

#[derive(Clone, Debug)]
pub struct WriteObs {
    pub peer: u64,
    pub ann: AnnObs,
    /// inventory (sorted, deduplicated) of an inventory announcement
    pub inv: Vec<u64>,
    /// the message content without signature (for the oracles only; never printed)
    pub content: String,
    /// `Announcement::verify()` of the message actually written (for the oracles only)
    pub verified: bool,
}

impl WriteObs {
    pub fn show(&self) -> String {
        let mut s = format!("{}>{}", self.peer, self.ann.show());
        if self.ann.kind == 'i' {
            s.push(':');
            if self.inv.is_empty() {
                s.push('-');
            } else {
                s.push_str(&self.inv.iter().map(|r| r.to_string()).collect::<Vec<_>>().join("+"));
            }
        }
        s
    }
}

#[derive(Clone, Debug)]
pub struct StepRec {
    pub op: Op,
    /// announcement writes, in the order the service queued them
    pub writes: Vec<WriteObs>,
    /// (peer, 'm' misbehavior | 't' invalid timestamp)
    pub discs: Vec<(u64, char)>,
    /// gossip store rows after the step (sorted)
    pub rows: Vec<AnnObs>,
    pub rows_changed: bool,
    /// rows whose stored message does not pass `Announcement::verify()` (for the oracles only)
    pub rows_unverified: Vec<AnnObs>,
    /// the repositories (ground truth + storage) while the step ran (`SetRepo` applies after)
    pub repos: BTreeMap<u64, RepoSpec>,
    /// peers connected when the step started
    pub sessions: Vec<u64>,
    /// service clock when the step started / ended
    pub clock_before: u64,
    pub clock_after: u64,
    /// `Service::tick` / raw clock writes and `elapse` outcome is visible through `clock_after`
    pub panicked: Option<String>,
}

impl StepRec {
    pub fn show(&self) -> String {
        if let Some(_) = &self.panicked {
            return "panic".to_string();
        }
        if self.writes.is_empty() && self.discs.is_empty() && !self.rows_changed {
            return ".".to_string();
        }
        let list = |mut xs: Vec<String>| -> String {
            if xs.is_empty() {
                "-".to_string()
            } else {
                xs.sort();
                xs.join(",")
            }
        };
        format!(
            "w={} d={} s={}",
            list(self.writes.iter().map(|w| w.show()).collect()),
            list(self.discs.iter().map(|(p, c)| format!("{p}!{c}")).collect()),
            if self.rows_changed { list(self.rows.iter().map(|r| r.show()).collect()) } else { "=".to_string() }
        )
    }
}

// ---------------------------------------------------------------------------------------------
// Storage wrapper
// ---------------------------------------------------------------------------------------------

#[derive(Clone, Debug)]
pub struct VStorage {
    pub inner: MockStorage,
    /// universe order
    pub order: Vec<RepoId>,
    pub local: NodeId,
    /// commit time of the local `rad/sigrefs`
    pub ctime: HashMap<RepoId, u64>,
}

impl ReadStorage for VStorage {
    type Repository = MockRepository;

    fn info(&self) -> &radicle::git::UserInfo {
        self.inner.info()
    }
    fn path(&self) -> &Path {
        self.inner.path()
    }
    fn path_of(&self, rid: &RepoId) -> PathBuf {
        self.inner.path_of(rid)
    }
    fn contains(&self, rid: &RepoId) -> Result<bool, RepositoryError> {
        self.inner.contains(rid)
    }
    fn repositories(&self) -> Result<Vec<RepositoryInfo>, StorageError> {
        let head = radicle::git::Oid::from_str("1111111111111111111111111111111111111111").unwrap();
        Ok(self
            .order
            .iter()
            .filter_map(|rid| self.inner.repos.get(rid).map(|r| (rid, r)))
            .map(|(rid, r)| RepositoryInfo {
                rid: *rid,
                head,
                doc: r.doc.clone().into(),
                refs: None,
                synced_at: r.remotes.get(&self.local).map(|sr| SyncedAt {
                    oid: sr.at,
                    timestamp: LocalTime::from_millis(*self.ctime.get(rid).unwrap_or(&0) as u128),
                }),
            })
            .collect())
    }
    fn repository(&self, rid: RepoId) -> Result<Self::Repository, RepositoryError> {
        self.inner.repository(rid)
    }
}

impl WriteStorage for VStorage {
    type RepositoryMut = MockRepository;

    fn repository_mut(&self, rid: RepoId) -> Result<Self::RepositoryMut, RepositoryError> {
        self.inner.repository_mut(rid)
    }
    fn create(&self, rid: RepoId) -> Result<Self::RepositoryMut, StorageError> {
        self.inner.create(rid)
    }
    fn clean(&self, rid: RepoId) -> Result<Vec<radicle::storage::RemoteId>, RepositoryError> {
        self.inner.clean(rid)
    }
}

// ---------------------------------------------------------------------------------------------
// World
// ---------------------------------------------------------------------------------------------

pub fn device(k: u64) -> Device<MockSigner> {
    let mut seed = [0x42u8; 32];
    seed[..8].copy_from_slice(&(k + 1).to_le_bytes());
    Device::mock_from_seed(seed)
}

pub fn rid_of(i: u64) -> RepoId {
    let mut bytes = [0u8; 20];
    bytes[0] = 0xa0 + i as u8;
    bytes[19] = i as u8 + 1;
    RepoId::from(radicle::git::Oid::try_from(&bytes[..]).unwrap())
}

pub fn oid_of(i: u64) -> radicle::git::Oid {
    let mut bytes = [0x33u8; 20];
    bytes[..8].copy_from_slice(&i.to_le_bytes());
    radicle::git::Oid::try_from(&bytes[..]).unwrap()
}

pub fn addr_of(k: u64) -> Address {
    Address::from(SocketAddr::new(IpAddr::V4(Ipv4Addr::new(8, 8, 1 + k as u8, 1)), 8776))
}

pub struct World {
    pub peer: Peer<VStorage, MockSigner>,
    pub devices: Vec<Device<MockSigner>>,
    pub nids: HashMap<NodeId, u64>,
    pub rids: HashMap<RepoId, u64>,
    pub links: HashMap<u64, Link>,
    pub repos: BTreeMap<u64, RepoSpec>,
    pub prev_rows: Vec<AnnObs>,
    /// highest clock reading at which a message was received
    pub hi: u64,
    /// every op of the case (a forged announcement may re-use the signature of the genuine one of another op)
    pub ops: Vec<Op>,
}

/// The Bloom filter must behave like a set on the repositories in use (checked once).
fn check_filters() {
    static ONCE: std::sync::Once = std::sync::Once::new();
    ONCE.call_once(|| {
        for mask in 0u64..(1 << N_RIDS) {
            let set: Vec<u64> = (0..N_RIDS).filter(|i| mask & (1 << i) != 0).collect();
            let f = Filter::new(set.iter().map(|i| rid_of(*i)));
            for i in 0..N_RIDS {
                assert_eq!(f.contains(&rid_of(i)), set.contains(&i), "bloom filter false positive on the rid universe");
            }
        }
    });
}

impl World {
    pub fn new(t0: u64, relay: bool) -> World {
        check_filters();
        let devices: Vec<_> = (0..N_NODES).map(device).collect();
        let nids = devices.iter().enumerate().map(|(i, d)| (*d.public_key(), i as u64)).collect();
        let rids = (0..N_RIDS).map(|i| (rid_of(i), i)).collect();
        let local = *devices[0].public_key();
        let storage = VStorage {
            inner: MockStorage::empty(),
            order: (0..N_RIDS).map(rid_of).collect(),
            local,
            ctime: HashMap::new(),
        };
        let mut config = service::Config::test(Alias::from_str("verif").unwrap());
        config.peers = PeerConfig::Static;
        config.relay = if relay { Relay::Always } else { Relay::Never };
        config.limits.rate.inbound = RateLimit { fill_rate: 1000.0, capacity: 1 << 20 };
        config.limits.rate.outbound = RateLimit { fill_rate: 1000.0, capacity: 1 << 20 };
        let pc = peer::Config {
            config,
            local_time: LocalTime::from_millis(t0 as u128),
            policy: Default::default(),
            signer: device(0),
            rng: fastrand::Rng::with_seed(7),
            // the node database: on a RAM disk if there is one (SQLite syncs every transaction)
            tmp: if Path::new("/dev/shm").is_dir() {
                tempfile::Builder::new().prefix("verif-gossip").tempdir_in("/dev/shm").unwrap()
            } else {
                tempfile::TempDir::new().unwrap()
            },
        };
        let peer = Peer::config("verif", [8, 8, 1, 1], storage, pc).initialized();
        let mut w = World {
            peer,
            devices,
            nids,
            rids,
            links: HashMap::new(),
            repos: BTreeMap::new(),
            prev_rows: vec![],
            hi: 0,
            ops: vec![],
        };
        w.drain(&mut vec![], &mut vec![]);
        w.prev_rows = w.rows();
        w
    }

    pub fn nid(&self, k: u64) -> NodeId {
        *self.devices[k as usize].public_key()
    }

    fn clock(&self) -> u64 {
        self.peer.clock().as_millis()
    }

    fn obs_of(&self, ann: &Announcement) -> (AnnObs, Vec<u64>) {
        let node = *self.nids.get(&ann.node).unwrap_or(&99);
        let ts = *ann.timestamp();
        match &ann.message {
            AnnouncementMessage::Node(_) => (AnnObs { node, kind: 'n', repo: 0, ts }, vec![]),
            AnnouncementMessage::Inventory(m) => {
                let mut inv: Vec<u64> = m.inventory.iter().map(|r| *self.rids.get(r).unwrap_or(&99)).collect();
                inv.sort();
                inv.dedup();
                (AnnObs { node, kind: 'i', repo: 0, ts }, inv)
            }
            AnnouncementMessage::Refs(m) => {
                (AnnObs { node, kind: 'r', repo: *self.rids.get(&m.rid).unwrap_or(&99), ts }, vec![])
            }
        }
    }

    /// Rows of the gossip store whose stored announcement fails `verify()`.
    pub fn rows_unverified(&self) -> Vec<AnnObs> {
        self.peer
            .database()
            .gossip()
            .filtered(&Filter::default(), Timestamp::MIN, Timestamp::MAX)
            .expect("gossip store query")
            .filter_map(|a| a.ok())
            .filter(|a| !a.verify())
            .map(|a| self.obs_of(&a).0)
            .collect()
    }

    pub fn rows(&self) -> Vec<AnnObs> {
        let mut v: Vec<AnnObs> = self
            .peer
            .database()
            .gossip()
            .filtered(&Filter::default(), Timestamp::MIN, Timestamp::MAX)
            .expect("gossip store query")
            .filter_map(|a| a.ok())
            .map(|a| self.obs_of(&a).0)
            .collect();
        v.sort();
        v
    }

    /// Drain the outbox; every fetch the service started fails at once (which may start queued ones).
    fn drain(&mut self, writes: &mut Vec<WriteObs>, discs: &mut Vec<(u64, char)>) {
        for _ in 0..64 {
            let ios: Vec<Io> = self.peer.outbox().collect();
            if ios.is_empty() {
                return;
            }
            let mut fetches = vec![];
            for io in ios {
                match io {
                    Io::Write(to, msgs) => {
                        let p = *self.nids.get(&to).unwrap_or(&99);
                        for m in msgs {
                            if let Message::Announcement(a) = m {
                                let (ann, inv) = self.obs_of(&a);
                                writes.push(WriteObs { peer: p, ann, inv, content: format!("{:?}", a.message), verified: a.verify() });
                            }
                        }
                    }
                    Io::Disconnect(to, DisconnectReason::Session(e)) => {
                        let p = *self.nids.get(&to).unwrap_or(&99);
                        match e {
                            session::Error::Misbehavior => discs.push((p, 'm')),
                            session::Error::InvalidTimestamp(_) => discs.push((p, 't')),
                            _ => {}
                        }
                    }
                    Io::Fetch { rid, remote, .. } => fetches.push((rid, remote)),
                    _ => {}
                }
            }
            for (rid, remote) in fetches {
                self.peer.fetched(
                    rid,
                    remote,
                    Err(worker::FetchError::Io(std::io::ErrorKind::ConnectionReset.into())),
                );
            }
        }
        panic!("outbox does not drain");
    }

    fn announcement(&self, a: &AnnSpec) -> Option<Announcement> {
        if a.node >= N_NODES || (a.kind == Kind::Refs && a.repo >= N_RIDS) || a.inv.iter().any(|r| *r >= N_RIDS) {
            return None;
        }
        let ts = Timestamp::try_from(a.ts).ok()?;
        let msg: AnnouncementMessage = match a.kind {
            Kind::Node => NodeAnnouncement {
                version: PROTOCOL_VERSION,
                features: if a.flag { Features::SEED } else { Features::NONE },
                timestamp: ts,
                alias: Alias::from_str(&format!("n{}", a.node)).unwrap(),
                addresses: Some(addr_of(a.node)).into(),
                nonce: 0,
                agent: UserAgent::from_str("/radicle:verif/").unwrap(),
            }
            .into(),
            Kind::Inv => InventoryAnnouncement {
                inventory: a.inv.iter().map(|r| rid_of(*r)).collect::<Vec<_>>().try_into().ok()?,
                timestamp: ts,
            }
            .into(),
            Kind::Refs => RefsAnnouncement {
                rid: rid_of(a.repo),
                refs: if a.flag {
                    vec![radicle::storage::refs::RefsAt { remote: self.nid(a.node), at: oid_of(a.ts % 1000) }]
                        .try_into()
                        .ok()?
                } else {
                    BoundedVec::new()
                },
                timestamp: ts,
            }
            .into(),
        };
        let mut ann = match a.reuse {
            // A forged announcement carrying the signature bytes of the genuine announcement of op `k`.
            Some(k) => {
                let Some(Op::Recv(_, g)) = self.ops.get(k) else { return None };
                if !g.sig_ok || g.reuse.is_some() || a.sig_ok {
                    return None;
                }
                let genuine = self.announcement(g)?;
                let mut ann = msg.signed(&self.devices[a.node as usize]);
                ann.signature = genuine.signature;
                ann
            }
            // A forged announcement: signed by somebody else's key.
            None => msg.signed(&self.devices[(if a.sig_ok { a.node } else { (a.node + 1) % N_NODES }) as usize]),
        };
        ann.node = self.nid(a.node);
        // `sigOk` of the case text is the value of the real `Announcement::verify`.
        if ann.verify() != a.sig_ok {
            return None;
        }
        Some(ann)
    }

    fn doc_of(&self, r: &RepoSpec) -> Option<Doc> {
        let mut delegates: Vec<Did> = r.delegates.iter().map(|k| Did::from(self.nid(*k))).collect();
        if delegates.is_empty() {
            return None;
        }
        let first = delegates.remove(0);
        let visibility = if r.private {
            Visibility::Private { allow: r.allow.iter().map(|k| Did::from(self.nid(*k))).collect() }
        } else {
            Visibility::Public
        };
        let project = Project::new(
            format!("repo{}", r.rid).try_into().ok()?,
            "verif".to_string(),
            radicle::git::RefString::try_from("master").unwrap(),
        )
        .ok()?;
        let doc = Doc::initial(project, first, visibility);
        if delegates.is_empty() {
            Some(doc)
        } else {
            doc.with_edits(|raw| raw.delegates.extend(delegates)).ok()
        }
    }

    /// Environment preconditions (the Lean driver's `admissible`).
    fn admissible(&self, op: &Op) -> bool {
        let connected = |p: &u64| self.links.contains_key(p);
        match op {
            Op::Connect(p, _) => *p != 0 && *p < N_NODES && !connected(p),
            Op::Disconnect(p) => *p != 0 && *p < N_NODES,
            Op::Recv(p, a) => {
                *p != 0 && *p < N_NODES && self.hi <= self.clock() && a.ts <= I64MAX && a.node < N_NODES
                    && a.repo < N_RIDS && a.inv.iter().all(|r| *r < N_RIDS)
            }
            Op::Subscribe(p, f, _, _) => {
                *p != 0 && *p < N_NODES && self.hi <= self.clock()
                    && f.as_ref().map(|f| f.iter().all(|r| *r < N_RIDS)).unwrap_or(true)
            }
            Op::SetClock(t) | Op::Tick(t) => *t >= GOSSIP_MAX_AGE,
            Op::Fetched(rid, p, _, _) => {
                *p != 0 && *p < N_NODES && self.repos.get(rid).map(|r| r.present).unwrap_or(false)
            }
            Op::SetRepo(r) => {
                r.rid < N_RIDS
                    && (r.present || r.own.is_none())
                    && (!r.present || !r.delegates.is_empty())
                    && r.delegates.iter().chain(r.allow.iter()).all(|k| *k < N_NODES)
            }
            Op::AnnounceRefs(r) | Op::AddInventory(r) | Op::Seed(r) | Op::Unseed(r) => *r < N_RIDS,
            Op::KnowNode(n, ts) => *n != 0 && *n < N_NODES && *ts <= I64MAX,
            _ => true,
        }
    }

    /// Execute one op on the real service. `None` = the op is outside the environment (bad case).
    pub fn step(&mut self, op: &Op) -> Option<StepRec> {
        if !self.admissible(op) {
            return None;
        }
        let repos = self.repos.clone();
        let mut sessions: Vec<u64> = self.links.keys().cloned().collect();
        sessions.sort();
        let clock_before = self.clock();
        let mut writes = vec![];
        let mut discs = vec![];
        // Things that must be built before entering the service (and can make the case invalid).
        let prepared_ann = match op {
            Op::Recv(_, a) => Some(self.announcement(a)?),
            _ => None,
        };
        let prepared_doc = match op {
            Op::SetRepo(r) if r.present => Some(self.doc_of(r)?),
            _ => None,
        };
        let res = verif_common::catch(|| {
            match op {
                Op::Connect(p, inbound) => {
                    let nid = self.nid(*p);
                    if *inbound {
                        self.peer.connected(nid, addr_of(*p), Link::Inbound);
                        self.links.insert(*p, Link::Inbound);
                    } else {
                        self.peer.command(Command::Connect(nid, addr_of(*p), ConnectOptions::default()));
                        self.peer.attempted(nid, addr_of(*p));
                        self.peer.connected(nid, addr_of(*p), Link::Outbound);
                        self.links.insert(*p, Link::Outbound);
                    }
                }
                Op::Disconnect(p) => {
                    let link = self.links.remove(p).unwrap_or(Link::Inbound);
                    let nid = self.nid(*p);
                    self.peer.disconnected(nid, link, &DisconnectReason::Command);
                }
                Op::Recv(p, _) => {
                    self.hi = self.hi.max(clock_before);
                    let nid = self.nid(*p);
                    self.peer.received_message(nid, Message::Announcement(prepared_ann.clone().unwrap()));
                }
                Op::Subscribe(p, f, since, until) => {
                    self.hi = self.hi.max(clock_before);
                    let filter = match f {
                        None => Filter::default(),
                        Some(rs) => Filter::new(rs.iter().map(|r| rid_of(*r))),
                    };
                    // `Timestamp` is any u64 on the wire
                    let mk = |t: u64| Timestamp::try_from(t).unwrap_or_else(|_| Timestamp::MAX + (t - I64MAX));
                    let nid = self.nid(*p);
                    self.peer.received_message(
                        nid,
                        Message::Subscribe(Subscribe { filter, since: mk(*since), until: mk(*until) }),
                    );
                }
                Op::Elapse(dt) => self.peer.elapse(LocalDuration::from_millis(*dt as u128)),
                Op::Tick(t) => {
                    let m = self.peer.metrics().clone();
                    self.peer.tick(LocalTime::from_millis(*t as u128), &m)
                }
                Op::SetClock(t) => *self.peer.clock_mut() = LocalTime::from_millis(*t as u128),
                Op::AnnounceRefs(rid) => {
                    let (tx, _rx) = chan::unbounded();
                    self.peer.command(Command::AnnounceRefs(rid_of(*rid), tx));
                }
                Op::AddInventory(rid) => {
                    let (tx, _rx) = chan::unbounded();
                    self.peer.command(Command::AddInventory(rid_of(*rid), tx));
                }
                Op::AnnounceInventory => self.peer.command(Command::AnnounceInventory),
                Op::Seed(rid) => {
                    self.peer.seed(&rid_of(*rid), radicle::node::policy::Scope::All).unwrap();
                }
                Op::Unseed(rid) => {
                    self.peer.unseed(&rid_of(*rid)).unwrap();
                }
                Op::Fetched(rid, p, clone, upd) => {
                    let (tx, _rx) = chan::unbounded();
                    let id = rid_of(*rid);
                    let nid = self.nid(*p);
                    self.peer.command(Command::Fetch(id, nid, std::time::Duration::from_secs(9), tx));
                    // Was the fetch started?
                    let ios: Vec<Io> = self.peer.outbox().collect();
                    let started = ios.iter().any(|io| matches!(io, Io::Fetch { rid: r, remote, .. } if *r == id && *remote == nid));
                    // (a refused `Command::Fetch` writes nothing we project)
                    if started {
                        let doc = self.peer.storage().inner.repos.get(&id).unwrap().doc.clone();
                        let updated = if *upd {
                            vec![RefUpdate::Created { name: radicle::git::RefString::try_from("refs/heads/verif").unwrap(), oid: oid_of(1) }]
                        } else {
                            vec![]
                        };
                        let local = self.nid(0);
                        self.peer.fetched(
                            id,
                            nid,
                            Ok(worker::fetch::FetchResult {
                                updated,
                                namespaces: HashSet::from([local]),
                                clone: *clone,
                                doc,
                            }),
                        );
                    }
                }
                Op::Restart => self.peer.restart(),
                Op::KnowNode(n, ts) => {
                    use radicle::node::address::Store as _;
                    let nid = self.nid(*n);
                    self.peer
                        .database_mut()
                        .addresses_mut()
                        .insert(
                            &nid,
                            PROTOCOL_VERSION,
                            Features::SEED,
                            &Alias::from_str(&format!("n{n}")).unwrap(),
                            0,
                            &UserAgent::from_str("/radicle:verif/").unwrap(),
                            Timestamp::try_from(*ts).unwrap(),
                            Some(radicle::node::KnownAddress::new(addr_of(*n), radicle::node::address::Source::Peer)),
                        )
                        .unwrap();
                }
                Op::SetRepo(r) => {
                    let id = rid_of(r.rid);
                    if r.present {
                        let mut repo = MockRepository::new(id, prepared_doc.clone().unwrap());
                        if let Some((oid, ctime)) = r.own {
                            // (no signed identity root: the mock repository id is not derived from its document)
                            let sr = radicle::storage::refs::SignedRefsAt {
                                sigrefs: Refs::default().signed(self.peer.signer()).unwrap().verified(&repo).unwrap(),
                                at: oid_of(oid),
                            };
                            repo.remotes.insert(self.nid(0), sr);
                            self.peer.storage_mut().ctime.insert(id, ctime);
                        }
                        self.peer.storage_mut().inner.repos.insert(id, repo);
                    } else {
                        self.peer.storage_mut().inner.repos.remove(&id);
                    }
                    self.repos.insert(r.rid, r.clone());
                }
            }
            self.drain(&mut writes, &mut discs);
        });
        let panicked = res.err();
        if let (Some(m), true) = (&panicked, std::env::var("VERIF_DEBUG").is_ok()) {
            eprintln!("panic in op {op:?}: {m}");
        }
        let rows = if panicked.is_some() { self.prev_rows.clone() } else { self.rows() };
        let rows_changed = rows != self.prev_rows;
        self.prev_rows = rows.clone();
        let rows_unverified = if panicked.is_some() { vec![] } else { self.rows_unverified() };
        Some(StepRec {
            op: op.clone(),
            writes,
            discs,
            rows,
            rows_changed,
            rows_unverified,
            repos,
            sessions,
            clock_before,
            clock_after: self.clock(),
            panicked,
        })
    }
}

/// Run a whole case on the real service. `None` = malformed / outside the environment.
pub fn run(input: &str) -> Option<(u64, Vec<StepRec>)> {
    let (t0, relay, ops) = parse_case(input)?;
    if t0 < GOSSIP_MAX_AGE || t0 > (1 << 50) {
        return None;
    }
    let mut w = World::new(t0, relay);
    w.ops = ops.clone();
    let mut recs = vec![];
    for op in &ops {
        let r = w.step(op)?;
        let stop = r.panicked.is_some();
        recs.push(r);
        if stop {
            break;
        }
    }
    Some((t0, recs))
}

pub fn show(recs: &[StepRec]) -> String {
    if recs.is_empty() {
        "-".to_string()
    } else {
        recs.iter().map(|r| r.show()).collect::<Vec<_>>().join("|")
    }
}

// ---------------------------------------------------------------------------------------------
// Case text helpers for the generators
// ---------------------------------------------------------------------------------------------

pub fn plus_list(xs: &[u64]) -> String {
    if xs.is_empty() {
        "-".to_string()
    } else {
        xs.iter().map(|x| x.to_string()).collect::<Vec<_>>().join("+")
    }
}

pub fn repo_tok(r: &RepoSpec) -> String {
    format!(
        "p,{},{},{},{},{},{},{}",
        r.rid,
        r.present as u8,
        r.private as u8,
        plus_list(&r.delegates),
        plus_list(&r.allow),
        r.own.map(|(o, _)| o.to_string()).unwrap_or("-".into()),
        r.own.map(|(_, c)| c).unwrap_or(0)
    )
}

pub fn ann_tok(p: u64, a: &AnnSpec) -> String {
    let payload = match a.kind {
        Kind::Inv => plus_list(&a.inv),
        _ => (a.flag as u8).to_string(),
    };
    let sig = match a.reuse {
        Some(k) => format!("r{k}"),
        None => (a.sig_ok as u8).to_string(),
    };
    format!("a,{},{},{},{},{},{},{}", p, a.node, a.kind.ch(), a.repo, a.ts, sig, payload)
}
