/-! Driver entry for property C05 (stub: not implemented yet). -/
namespace HeartwoodModel.Driver.C05

def run (_args : List String) : String := "unimplemented"

end HeartwoodModel.Driver.C05
