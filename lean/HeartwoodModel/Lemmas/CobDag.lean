import HeartwoodModel.Model.ChangeGraph
import HeartwoodModel.Lemmas.DagRemove
import HeartwoodModel.Lemmas.DagPrune
/-!
# From the change-graph evaluator to linear evaluation (used to lift the C04 / C07 / C08 history theorems)

`ChangeGraph::evaluate` threads the object state through the calls of `apply` it makes while pruning
the graph. These lemmas (about a10's `Model/ChangeGraph.lean` / `Model/Dag.lean`, which are not edited)
say that the final state is the left fold of the filter over *some* list of calls whose keys are
pairwise distinct, are not the root, and whose entries are entries of the ORIGINAL graph under the
same key. Hence every theorem of the form "for every list of entries, folding `step` from the root
state gives a state with property P" holds for the state produced by `evaluate` on every well-formed
acyclic graph.
-/
set_option linter.unusedVariables false
namespace HeartwoodModel.Dag
variable {V S : Type}

/-- Every node of `g` is a node of `g0` with the same value. -/
def Sub (g0 g : Dag V) : Prop := ∀ k n, g.get k = some n → ∃ n0, g0.get k = some n0 ∧ n.value = n0.value

theorem Sub.refl (g : Dag V) : Sub g g := fun k n h => ⟨n, h, rfl⟩

/-- One call of the filter: key, node as found in the (partially pruned) graph, concurrent nodes. -/
abbrev Call (V : Type) := K × Node V × List (K × Node V)

def runCalls (F : S → K → Node V → List (K × Node V) → S × Bool) (s : S) (calls : List (Call V)) : S :=
  calls.foldl (fun s c => (F s c.1 c.2.1 c.2.2).1) s

theorem pruneLoop_linear (fuel : Nat) (F : S → K → Node V → List (K × Node V) → S × Bool) (g0 : Dag V) :
    ∀ (ks : List K) (g : Dag V) (s : S) (g' : Dag V) (s' : S), g.Wf → Sub g0 g →
      Dag.pruneLoop fuel F g s ks = some (g', s') →
      ∃ calls : List (Call V), (calls.map (·.1)).Sublist ks ∧
        (∀ c ∈ calls, ∃ n0, g0.get c.1 = some n0 ∧ c.2.1.value = n0.value) ∧
        s' = runCalls F s calls := by
  intro ks
  induction ks with
  | nil =>
    intro g s g' s' _ _ h
    simp [Dag.pruneLoop] at h
    exact ⟨[], by simp, by simp, by simp [runCalls, h.2]⟩
  | cons k ks ih =>
    intro g s g' s' hwf hsub h
    rw [Dag.pruneLoop] at h
    cases hk : g.get k with
    | none =>
      simp only [hk] at h
      obtain ⟨calls, h1, h2, h3⟩ := ih g s g' s' hwf hsub h
      exact ⟨calls, h1.cons _, h2, h3⟩
    | some n =>
      simp only [hk] at h
      cases hs : g.siblingsOf fuel k n with
      | none => simp [hs] at h
      | some sibs =>
        simp only [hs] at h
        have hn0 := hsub k n hk
        by_cases hc : (F s k n sibs).2 = true
        · simp only [hc, if_true] at h
          obtain ⟨calls, h1, h2, h3⟩ := ih g _ g' s' hwf hsub h
          refine ⟨(k, n, sibs) :: calls, by simpa using h1, ?_, by simpa [runCalls] using h3⟩
          intro c hcm
          rcases List.mem_cons.mp hcm with rfl | hcm
          · exact hn0
          · exact h2 c hcm
        · simp only [hc, Bool.false_eq_true, if_false] at h
          cases hr : g.remove fuel k with
          | none => simp [hr] at h
          | some g1 =>
            simp only [hr] at h
            obtain ⟨hwf1, _, hv⟩ := remove_spec hwf hr
            have hsub1 : Sub g0 g1 := by
              intro x n' hx
              obtain ⟨n1, hn1, hval, _⟩ := hv x n' hx
              obtain ⟨n0, hn0', hval0⟩ := hsub x n1 hn1
              exact ⟨n0, hn0', hval.trans hval0⟩
            obtain ⟨calls, h1, h2, h3⟩ := ih g1 _ g' s' hwf1 hsub1 h
            refine ⟨(k, n, sibs) :: calls, by simpa using h1, ?_, by simpa [runCalls] using h3⟩
            intro c hcm
            rcases List.mem_cons.mp hcm with rfl | hcm
            · exact hn0
            · exact h2 c hcm

/-- If each call either leaves the state alone or applies a step `stepf` with an entry computed from the
call, the run is the fold of `stepf` over those entries. -/
theorem runCalls_filterMap {O : Type} {F : S → K → Node V → List (K × Node V) → S × Bool}
    {f : Call V → Option O} {stepf : S → O → S}
    (h : ∀ s c, (F s c.1 c.2.1 c.2.2).1 = match f c with | some o => stepf s o | none => s)
    (s0 : S) (calls : List (Call V)) : runCalls F s0 calls = (calls.filterMap f).foldl stepf s0 := by
  induction calls generalizing s0 with
  | nil => rfl
  | cons c cs ih =>
    simp only [runCalls, List.foldl_cons, List.filterMap_cons]
    have := h s0 c
    cases hf : f c with
    | none => simp only [hf] at this ⊢; rw [this]; exact ih s0
    | some o => simp only [hf, List.foldl_cons] at this ⊢; rw [this]; exact ih _

end HeartwoodModel.Dag

namespace HeartwoodModel.ChangeGraph
open HeartwoodModel.Dag
variable {E S : Type}

/-- **`evaluate` is a linear run**: on a well-formed acyclic graph, the state produced by `evaluate` is
the fold of the evaluator's filter over a list of calls whose keys are pairwise distinct and different
from the root, and whose entries are the entries of the graph under those keys. -/
theorem evaluate_linear {g g' : Dag E} (hwf : g.Wf) (hac : Acyclic g.dependentsOf)
    {sigOk : E → Bool} {ts : E → Nat} {init : E → Option S}
    {applyM : S → K → E → List (K × E) → S × Bool} {fuel : Nat} {root : K} {s : S}
    (h : evaluate sigOk ts init applyM fuel g root = .ok s g') :
    ∃ rn s0 calls, g.get root = some rn ∧ sigOk rn.value = true ∧ init rn.value = some s0 ∧
      (calls.map (·.1)).Nodup ∧ root ∉ calls.map (·.1) ∧
      (∀ c ∈ calls, ∃ n0, g.get c.1 = some n0 ∧ c.2.1.value = n0.value) ∧
      s = runCalls (evalFilter sigOk applyM) s0 calls := by
  unfold evaluate at h
  cases hr : g.get root with
  | none => simp [hr] at h
  | some rn =>
    simp only [hr] at h
    by_cases hs : (!sigOk rn.value) = true
    · simp [hs] at h
    · simp only [hs, if_false] at h
      cases hi : init rn.value with
      | none => simp [hi] at h
      | some s0 =>
        simp only [hi] at h
        cases hp : g.pruneBy fuel rn.dependents (evalFilter sigOk applyM) (chronological ts) s0 with
        | none => simp [hp] at h
        | some r =>
          obtain ⟨g1, s1⟩ := r
          simp only [hp, EvalOut.ok.injEq] at h
          obtain ⟨rfl, rfl⟩ := h
          unfold Dag.pruneBy at hp
          cases hd : dfs (g.visitByNext (chronological ts)) fuel rn.dependents ([], []) with
          | none => simp [hd] at hp
          | some vo =>
            obtain ⟨vis, ord⟩ := vo
            simp only [hd] at hp
            obtain ⟨htopo, hmem⟩ := order_topo (acyclic_visitByNext hac (chronological ts)) hd
            obtain ⟨calls, h1, h2, h3⟩ := pruneLoop_linear fuel _ g ord g s0 g' s hwf (Sub.refl g) hp
            refine ⟨rn, s0, calls, rfl, by simpa using hs, hi, h1.nodup htopo.nodup, ?_, h2, h3⟩
            intro hroot
            have hro : root ∈ ord := h1.subset hroot
            obtain ⟨k, hk, hx⟩ := (hmem root).mp hro
            have hstep : g.Desc root k := .step (by rw [Dag.dependentsOf_of_get hr]; exact hk)
            rcases hx with rfl | hx
            · exact hac _ hstep
            · exact hac _ (hstep.append ((reach_visitByNext_iff hwf).mp hx))


/-- **`evaluate` is a fold of the type's step function**: if the state `apply` leaves behind is
`stepf s (entryOf call)` (`entryOf` may look at the concurrent entries, as `Identity::op` does), then on a
well-formed acyclic graph the evaluated state is the left fold of `stepf` over the entries of a list of
calls with pairwise distinct keys, none of them the root, each a validly signed entry of the graph. -/
theorem evaluate_is_fold {O : Type} {g g' : Dag E} (hwf : g.Wf) (hac : Acyclic g.dependentsOf)
    {sigOk : E → Bool} {ts : E → Nat} {init : E → Option S}
    {applyM : S → K → E → List (K × E) → S × Bool} {stepf : S → O → S} {entryOf : Call E → O}
    (happ : ∀ s k (n : Node E) (sibs : List (K × Node E)),
      (applyM s k n.value (sibs.map fun p => (p.1, p.2.value))).1 = stepf s (entryOf (k, n, sibs)))
    {fuel : Nat} {root : K} {s : S}
    (h : evaluate sigOk ts init applyM fuel g root = .ok s g') :
    ∃ (rn : Node E) (s0 : S) (calls : List (Call E)), g.get root = some rn ∧ init rn.value = some s0 ∧
      (calls.map (·.1)).Nodup ∧ root ∉ calls.map (·.1) ∧
      (∀ c ∈ calls, ∃ n0, g.get c.1 = some n0 ∧ c.2.1.value = n0.value ∧ sigOk n0.value = true) ∧
      s = (calls.map entryOf).foldl stepf s0 := by
  obtain ⟨rn, s0, calls, hr, _, hi, hn, hroot, hv, hs⟩ := evaluate_linear hwf hac h
  let f : Call E → Option O := fun c => if sigOk c.2.1.value then some (entryOf c) else none
  have hrun : s = (calls.filterMap f).foldl stepf s0 := by
    rw [hs]
    apply runCalls_filterMap
    intro s c
    simp only [evalFilter, f]
    cases hsg : sigOk c.2.1.value
    · simp
    · simpa using happ s c.1 c.2.1 c.2.2
  refine ⟨rn, s0, calls.filter (fun c => sigOk c.2.1.value), hr, hi, ?_, ?_, ?_, ?_⟩
  · exact (List.Sublist.map _ List.filter_sublist).nodup hn
  · intro hx
    exact hroot ((List.Sublist.map _ List.filter_sublist).subset hx)
  · intro c hc
    obtain ⟨hc1, hc2⟩ := List.mem_filter.mp hc
    obtain ⟨n0, h1, h2⟩ := hv c hc1
    exact ⟨n0, h1, h2, by rw [← h2]; exact hc2⟩
  · rw [hrun]
    congr 1
    clear hs hrun hv hroot hn
    induction calls with
    | nil => rfl
    | cons c cs ih =>
      simp only [List.filterMap_cons, List.filter_cons, f]
      cases hsg : sigOk c.2.1.value
      · simpa using ih
      · simpa using ih

end HeartwoodModel.ChangeGraph
