//! C08 — a patch is merged only by a threshold of agreeing delegates.
//!
//! Each case is a whole patch history (`patch <docs> <heads> <order> <op>…`, syntax in
//! `lean/HeartwoodModel/Driver/C08.lean`). The harness stores the ops as real change commits of a real
//! patch COB in a real repository (arbitrary DAG, authors, identity documents, timestamps), sets the
//! default-branch refs of the actors, evaluates with the real `radicle_cob::get` → `Patch::apply`, and
//! prints the projected final state plus, per applied entry, whether it was accepted. The facts the
//! model takes as parameters (`anc` of each merge, evaluation `order`) are computed here by the real
//! code and written into the case text that goes to `cases.txt`.
//!
//! Oracle (property statement on what the real code did): every transition into `Merged{r,c}` has at
//! least `threshold(doc of that op)` actors whose recorded merge is `(r,c)`, each of them a delegate
//! (of the document its own op refers to) whose commit is on its default branch (checked with plain
//! libgit2); a merged patch never changes state by an op without a `Merge` action.

mod inject;
mod patchrun;

use std::collections::{BTreeMap, BTreeSet};

use inject::*;
use patchrun::*;
use radicle::cob::patch::State;
use verif_common::*;

/// Totals over all cases (reported in the evidence notes): entries applied / rejected by the real evaluation.
static OPS_APPLIED: std::sync::atomic::AtomicU64 = std::sync::atomic::AtomicU64::new(0);
static OPS_REJECTED: std::sync::atomic::AtomicU64 = std::sync::atomic::AtomicU64::new(0);
static OPS_TOTAL: std::sync::atomic::AtomicU64 = std::sync::atomic::AtomicU64::new(0);

fn count_ops(total: usize, applied: usize, rejected: usize) {
    use std::sync::atomic::Ordering::Relaxed;
    OPS_TOTAL.fetch_add(total as u64, Relaxed);
    OPS_APPLIED.fetch_add(applied as u64, Relaxed);
    OPS_REJECTED.fetch_add(rejected as u64, Relaxed);
}

fn elaborate(w: &mut World, input: &str) -> (String, Outcome) {
    let Some(mut case) = parse(input) else {
        return (input.to_string(), Outcome::new("bad-case").trivial().tag("bad-case"));
    };
    let run = match run(w, &mut case) {
        Ok(r) => r,
        Err(e) => return (input.to_string(), Outcome::new(format!("harness-error:{e}")).trivial().tag("harness-error")),
    };
    let text = render(&case);
    count_ops(case.ops.len() - 1, run.steps.iter().filter(|s| s.ok).count(), run.steps.iter().filter(|s| !s.ok).count());
    let mut o = Outcome::new(run.output.clone());
    o.tags = run.tags.clone();
    oracle(w, &case, &run, &mut o);
    (text, o)
}

fn state_key(w: &World, ids: &[radicle::git::Oid], s: &State) -> String {
    match s {
        State::Draft => "draft".into(),
        State::Archived => "archived".into(),
        State::Open { conflicts } => {
            if conflicts.is_empty() {
                "open".into()
            } else {
                "conflict".into()
            }
        }
        State::Merged { revision, commit } => format!(
            "merged:{}:{}",
            ids.iter().position(|i| i.to_string() == revision.to_string()).map(|k| k.to_string()).unwrap_or("?".into()),
            w.commit_index(commit).map(|k| k.to_string()).unwrap_or(commit.to_string())
        ),
    }
}

fn oracle(w: &World, case: &PCase, run: &PRun, o: &mut Outcome) {
    let ids = &run.ids;
    // Justified merges recorded so far: actor ↦ set of (revision index, commit oid) for which an APPLIED
    // op by that actor contained the merge, the actor being a delegate of that op's real document and
    // the commit being on the actor's default branch (independent libgit2 check).
    let mut recorded: BTreeMap<usize, BTreeSet<(String, radicle::git::Oid)>> = BTreeMap::new();
    let mut thresholds_seen: Vec<usize> = vec![];
    let mut note = |op: &POp, recorded: &mut BTreeMap<usize, BTreeSet<(String, radicle::git::Oid)>>| {
        let Some(d) = op.doc else { return };
        let is_delegate = doc_delegates(w, &run.docs[d]).contains(&op.author);
        for a in &op.actions {
            if let PAct::Merge { rev, commit, .. } = a {
                let c = w.commit(*commit as usize);
                if is_delegate && w.on_branch_raw(op.author, c) {
                    recorded.entry(op.author).or_default().insert((rev.to_string(), c));
                }
            }
        }
    };
    if run.init.is_some() {
        note(&case.ops[0], &mut recorded);
        if let Some(d) = case.ops[0].doc {
            thresholds_seen.push(run.docs[d].threshold());
        }
    }
    let mut n_merged_transitions = 0;
    let mut saw = BTreeSet::new();
    for s in &run.steps {
        let op = &case.ops[s.op];
        let has_merge = op.actions.iter().any(|a| matches!(a, PAct::Merge { .. }));
        if !s.ok {
            o.tags.push("op-rejected".into());
            if s.before != s.after {
                o.violations.push(("rejected-op-changed-state".into(), format!("op {} was rejected but changed the patch", s.op)));
            }
            continue;
        }
        note(op, &mut recorded);
        if let Some(d) = op.doc {
            thresholds_seen.push(run.docs[d].threshold());
        }
        let (b, a) = (s.before.state(), s.after.state());
        saw.insert(state_key(w, ids, a).split(':').next().unwrap().to_string());
        if let State::Merged { revision, commit } = a {
            if b != a {
                n_merged_transitions += 1;
                let Some(d) = op.doc else {
                    o.violations.push(("merged-without-identity".into(), format!("op {} has no identity document", s.op)));
                    continue;
                };
                let threshold = run.docs[d].threshold();
                let rev_idx = ids.iter().position(|i| i.to_string() == revision.to_string()).map(|k| k.to_string()).unwrap_or("?".into());
                let mergers: Vec<usize> = merges_of(w, ids, &s.after)
                    .into_iter()
                    .filter(|(_, (r, c))| *r == rev_idx && c == commit)
                    .map(|(a, _)| a)
                    .collect();
                // Reading fixed in advance (DESIGN C08): "have recorded a merge" = an applied Merge action by
                // that delegate is present in the evaluated history (a later action of the same op may already
                // have replaced the actor's entry in the `merges` map, which holds each actor's latest only).
                let recorded_n = recorded.values().filter(|s| s.contains(&(rev_idx.clone(), *commit))).count();
                if recorded_n < threshold {
                    o.violations.push((
                        "merged-below-threshold".into(),
                        format!(
                            "op {}: merged at ({rev_idx},{commit}) with {recorded_n} delegates having recorded that merge ({} in the map), threshold {threshold}",
                            s.op,
                            mergers.len()
                        ),
                    ));
                }
                if recorded_n == threshold {
                    o.tags.push("merged-at-exact-threshold".into());
                }
                if mergers.len() < recorded_n {
                    o.tags.push("merger-replaced-own-merge-in-same-op".into());
                }
                for m in &mergers {
                    if !recorded.get(m).map(|s| s.contains(&(rev_idx.clone(), *commit))).unwrap_or(false) {
                        o.violations.push((
                            "merge-counted-without-delegate-or-ancestry".into(),
                            format!("op {}: merger {m} counted for ({rev_idx},{commit}) without an applied delegate merge on its default branch", s.op),
                        ));
                    }
                }
            }
        }
        if let State::Merged { .. } = b {
            if a != b && !has_merge {
                o.violations.push((
                    "merged-left-without-merge".into(),
                    format!("op {} (no merge action) moved a merged patch to {}", s.op, state_key(w, ids, a)),
                ));
            }
            if has_merge && a != b {
                o.tags.push("merged-changed-by-merge".into());
            }
            if op.actions.iter().any(|x| matches!(x, PAct::Lifecycle(_))) {
                o.tags.push("lifecycle-on-merged".into());
            }
        }
    }
    // History form: final Merged{r,c} ⇒ some applied op's threshold is reached by distinct justified mergers.
    if let Some(State::Merged { revision, commit }) = run.last.as_ref().map(|p| p.state().clone()) {
        let rev_idx = ids.iter().position(|i| i.to_string() == revision.to_string()).map(|k| k.to_string()).unwrap_or("?".into());
        let n = recorded.values().filter(|s| s.contains(&(rev_idx.clone(), commit))).count();
        let min_t = thresholds_seen.iter().min().copied().unwrap_or(usize::MAX);
        if n < min_t {
            o.violations.push((
                "merged-unjustified".into(),
                format!("final state merged at ({rev_idx},{commit}) but only {n} delegates recorded that merge (min threshold {min_t})"),
            ));
        }
        o.tags.push("final-merged".into());
    } else if let Some(p) = &run.last {
        o.tags.push(format!("final-{}", state_key(w, ids, p.state())));
    }
    for s in saw {
        o.tags.push(format!("saw-{s}"));
    }
    let n_merge_actions: usize =
        case.ops.iter().flat_map(|o| o.actions.iter()).filter(|a| matches!(a, PAct::Merge { .. })).count();
    for op in &case.ops {
        for a in &op.actions {
            if let PAct::Merge { anc, .. } = a {
                o.tags.push(format!("anc-{anc}"));
            }
        }
    }
    if case.docs.len() > 1 {
        o.tags.push("multi-doc".into());
    }
    o.nontrivial = n_merge_actions >= 1 && run.init.is_some();
    if n_merged_transitions > 0 {
        o.tags.push("merged-transition".into());
    }
    o.tags.sort();
    o.tags.dedup();
}

fn gen_case(rng: &mut Rng) -> String {
    // documents
    let n_docs = if rng.chance(1, 4) { 2 } else { 1 };
    let mut docs = vec![];
    for _ in 0..n_docs {
        let n = rng.range(1, 4) as usize;
        let mut ds: Vec<usize> = vec![];
        while ds.len() < n {
            let d = rng.below(5) as usize;
            if !ds.contains(&d) {
                ds.push(d);
            }
        }
        let t = rng.range(1, n as u64) as usize;
        docs.push((ds, t));
    }
    // default-branch heads: mostly far along the main line (so that ancestry often holds), sometimes a
    // side commit, an early commit or no ref at all
    let heads: Vec<Option<usize>> = (0..N_ACTORS)
        .map(|_| match rng.below(10) {
            0 => None,
            1 | 2 => Some(rng.below(N_COMMITS as u64) as usize),
            3 => Some(2),
            _ => Some(3),
        })
        .collect();
    // a (revision, commit) pair most merges of this case agree on
    let popular_commit = rng.below(4);
    let delegates: Vec<usize> = docs[0].0.clone();
    let pick_actor = |rng: &mut Rng| -> usize {
        if rng.chance(5, 6) {
            *rng.pick(&delegates)
        } else {
            rng.below(N_ACTORS as u64) as usize
        }
    };
    let pick_doc = |rng: &mut Rng| -> Option<usize> {
        if rng.chance(1, 40) {
            None
        } else {
            Some(rng.below(n_docs as u64) as usize)
        }
    };
    let mut ops: Vec<POp> = vec![];
    let mut ts = 1000 + rng.below(50);
    let mut root_actions = vec![PAct::Revision(rng.range(1, 9)), PAct::Edit(rng.range(1, 9))];
    if rng.chance(1, 6) {
        root_actions.push(PAct::Lifecycle('d'));
    }
    ops.push(POp { author: rng.below(N_ACTORS as u64) as usize, doc: pick_doc(rng).or(Some(0)), ts, tips: vec![], actions: root_actions });
    let mut revisions: Vec<u64> = vec![0];
    let mut dag_tips: Vec<usize> = vec![0];
    let n_ops = rng.range(1, 9) as usize;
    for i in 1..=n_ops {
        ts = match rng.below(8) {
            0 | 1 => ts,
            2 => ts.saturating_sub(rng.below(3)),
            _ => ts + rng.range(1, 5),
        };
        let author = pick_actor(rng);
        let mut actions = vec![];
        let n_act = if rng.chance(1, 8) { 2 } else { 1 };
        for _ in 0..n_act {
            let a = match rng.below(20) {
                0..=10 => {
                    let rev = if rng.chance(1, 25) { FAKE_ID_BASE + rng.below(3) } else { *rng.pick(&revisions) };
                    let commit = if rng.chance(1, 30) {
                        7
                    } else if rng.chance(3, 5) {
                        popular_commit
                    } else {
                        rng.below(N_COMMITS as u64)
                    };
                    PAct::Merge { rev, commit, anc: '?' }
                }
                11 | 12 => PAct::Revision(rng.range(1, 9)),
                13 | 14 => PAct::RevisionRedact(*rng.pick(&revisions)),
                15..=17 => PAct::Lifecycle(*rng.pick(&['o', 'd', 'a'])),
                18 => PAct::Edit(rng.range(1, 9)),
                _ => PAct::Label(vec![rng.range(1, 3)]),
            };
            actions.push(a);
        }
        // tips: mostly the current DAG tips (linear), sometimes an older entry (concurrency)
        let tips: Vec<usize> = if rng.chance(2, 3) {
            dag_tips.clone()
        } else {
            let mut t = vec![rng.below(i as u64) as usize];
            if rng.chance(1, 3) {
                let u = rng.below(i as u64) as usize;
                if !t.contains(&u) {
                    t.push(u);
                }
            }
            t.sort();
            t
        };
        for t in &tips {
            dag_tips.retain(|x| x != t);
        }
        dag_tips.push(i);
        if dag_tips.len() > N_ACTORS - 1 {
            // keep the number of DAG tips (= refs needed) bounded: join everything
            let all = dag_tips.clone();
            dag_tips = vec![i];
            let mut tips2 = tips.clone();
            for t in all {
                if t != i && !tips2.contains(&t) {
                    tips2.push(t);
                }
            }
            tips2.sort();
            if actions.iter().any(|a| matches!(a, PAct::Revision(_))) {
                revisions.push(i as u64);
            }
            ops.push(POp { author, doc: pick_doc(rng), ts, tips: tips2, actions });
            continue;
        }
        if actions.iter().any(|a| matches!(a, PAct::Revision(_))) {
            revisions.push(i as u64);
        }
        ops.push(POp { author, doc: pick_doc(rng), ts, tips, actions });
    }
    render(&PCase { docs, heads, order: vec![], g: "?".into(), ops })
}

/// Exhaustive family: 3 delegates, threshold `t`, two revisions (0 and 1), two commits on every
/// delegate's branch, every sequence of `len` merges by the delegates (linear history), then an
/// archive attempt by the author.
fn exhaustive(t: usize, seq: &[(usize, u64, u64)]) -> String {
    let mut ops = vec![
        POp { author: 3, doc: Some(0), ts: 1000, tips: vec![], actions: vec![PAct::Revision(1), PAct::Edit(1)] },
        POp { author: 3, doc: Some(0), ts: 1001, tips: vec![0], actions: vec![PAct::Revision(2)] },
    ];
    for (i, (a, r, c)) in seq.iter().enumerate() {
        ops.push(POp {
            author: *a,
            doc: Some(0),
            ts: 1002 + i as u64,
            tips: vec![i + 1],
            actions: vec![PAct::Merge { rev: *r, commit: *c, anc: '?' }],
        });
    }
    let n = ops.len();
    ops.push(POp { author: 3, doc: Some(0), ts: 1100, tips: vec![n - 1], actions: vec![PAct::Lifecycle('a')] });
    render(&PCase {
        docs: vec![(vec![0, 1, 2], t)],
        heads: vec![Some(3), Some(3), Some(2), Some(3), None, None],
        order: vec![],
        g: "?".into(),
        ops,
    })
}

fn main() {
    let mut ctx = Ctx::from_args("C08");
    let mut world = World::new();
    let (fixed, is_replay) = ctx.fixed_inputs();
    for i in fixed {
        let (text, o) = elaborate(&mut world, &i);
        ctx.count("corpus-or-replay");
        ctx.record(&text, o);
    }
    if !is_replay {
        // exhaustive small family
        let max_len = ctx.size(2, 3) as usize;
        let choices: Vec<(usize, u64, u64)> =
            (0..3usize).flat_map(|a| (0..2u64).flat_map(move |r| [1u64, 2].into_iter().map(move |c| (a, r, c)))).collect();
        for t in 1..=3usize {
            for len in 0..=max_len {
                let mut idx = vec![0usize; len];
                loop {
                    let seq: Vec<(usize, u64, u64)> = idx.iter().map(|i| choices[*i]).collect();
                    let (text, o) = elaborate(&mut world, &exhaustive(t, &seq));
                    ctx.count("exhaustive-family");
                    ctx.record(&text, o);
                    if world.used > 400 {
                        world = World::new();
                    }
                    // next
                    let mut k = 0;
                    while k < len {
                        idx[k] += 1;
                        if idx[k] < choices.len() {
                            break;
                        }
                        idx[k] = 0;
                        k += 1;
                    }
                    if k == len {
                        break;
                    }
                }
            }
        }
        let mut rng = ctx.rng();
        for _ in 0..ctx.size(250, 4000) {
            let input = gen_case(&mut rng);
            let (text, o) = elaborate(&mut world, &input);
            ctx.record(&text, o);
            if world.used > 400 {
                world = World::new();
            }
        }
    }
    {
        use std::sync::atomic::Ordering::Relaxed;
        ctx.note("entries_total_non_root", OPS_TOTAL.load(Relaxed));
        ctx.note("entries_applied", OPS_APPLIED.load(Relaxed));
        ctx.note("entries_rejected", OPS_REJECTED.load(Relaxed));
    }
    ctx.finish(
        "whole patch histories on a real repository: 1-2 identity documents (1-4 delegates, thresholds 1..n), \
         per-actor default-branch heads over a fixed 6-commit graph, 1-9 ops (merges with agreeing/disagreeing \
         (revision, commit), non-ancestor / missing commits, redacted and missing revisions, strangers, \
         lifecycle, new revisions, multi-action ops) in random DAG shapes with equal and decreasing timestamps; \
         plus the exhaustive family 3 delegates x thresholds 1..3 x merge sequences over 2 revisions x 2 commits \
         (length <= 2 quick, <= 3 thorough) followed by an archive attempt; non-trivial = the history contains \
         a merge action and the root is valid; distinct by input text",
        false,
    );
}
