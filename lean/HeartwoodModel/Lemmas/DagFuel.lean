import HeartwoodModel.Lemmas.DagFold
/-!
# Fuel sufficiency: `Dag.fuelFor g n` is enough for every traversal of `g` that starts from `n` keys
-/
set_option linter.unusedSimpArgs false
set_option linter.unusedVariables false
namespace HeartwoodModel.Dag
variable {V : Type}

theorem wt_nil_le (w w' : K → Nat) (hle : ∀ u, w u ≤ w' u) (U : List K) :
    wt w U [] ≤ (U.map fun u => w' u + 1).sum := by
  induction U with
  | nil => simp [wt]
  | cons u U ih =>
    simp only [wt, List.not_mem_nil, if_false, List.map_cons, List.sum_cons]
    have := hle u
    omega

/-- weight by number of dependents -/
def Dag.wD (g : Dag V) (u : K) : Nat := (g.dependentsOf u).length
/-- weight by number of dependencies -/
def Dag.wP (g : Dag V) (u : K) : Nat := (g.depsOf u).length

theorem fuelFor_wD (g : Dag V) (n : Nat) (vis : List K) : n + wt g.wD g.keys vis < g.fuelFor n := by
  have h1 := wt_anti g.wD g.keys (vis := []) (vis' := vis) (by simp)
  have h2 := wt_nil_le g.wD (fun k => (g.depsOf k).length + (g.dependentsOf k).length)
    (fun u => by simp [Dag.wD]) g.keys
  simp only [Dag.fuelFor]
  omega

theorem fuelFor_wP (g : Dag V) (n : Nat) (vis : List K) : n + wt g.wP g.keys vis < g.fuelFor n := by
  have h1 := wt_anti g.wP g.keys (vis := []) (vis' := vis) (by simp)
  have h2 := wt_nil_le g.wP (fun k => (g.depsOf k).length + (g.dependentsOf k).length)
    (fun u => by simp [Dag.wP]) g.keys
  simp only [Dag.fuelFor]
  omega

theorem fuelFor_mono (g : Dag V) {n m : Nat} (h : n ≤ m) : g.fuelFor n ≤ g.fuelFor m := by
  simp only [Dag.fuelFor]; omega

theorem not_mem_keys {g : Dag V} {u : K} (h : u ∉ g.keys) : g.get u = none := by
  rw [Dag.mem_keys_iff] at h
  exact Dag.not_contains_iff.mp (by simpa using h)

/-! ### `dfs` -/

theorem dfs_visitNext_fuel (g : Dag V) {fuel : Nat} (ks vis ord : List K)
    (h : ks.length + wt g.wD g.keys vis < fuel) :
    ∃ r, dfs g.visitNext fuel ks (vis, ord) = some r := by
  apply dfs_fuel g.wD g.keys _ _ fuel ks vis ord h
  · intro u; simp [Dag.visitNext, Dag.wD]
  · intro u hu; simp [Dag.visitNext, Dag.dependentsOf_of_none (not_mem_keys hu)]

theorem length_visitByNext_le (g : Dag V) (le : K × V → K × V → Bool) (u : K) :
    (g.visitByNext le u).length ≤ (g.dependentsOf u).length := by
  simp only [Dag.visitByNext, List.length_map, List.length_reverse, length_isort]
  exact List.length_filterMap_le _ _

theorem dfs_visitByNext_fuel (g : Dag V) (le : K × V → K × V → Bool) {fuel : Nat} (ks vis ord : List K)
    (h : ks.length + wt g.wD g.keys vis < fuel) :
    ∃ r, dfs (g.visitByNext le) fuel ks (vis, ord) = some r := by
  apply dfs_fuel g.wD g.keys _ _ fuel ks vis ord h
  · intro u; exact length_visitByNext_le g le u
  · intro u hu
    have := length_visitByNext_le g le u
    rw [Dag.dependentsOf_of_none (not_mem_keys hu)] at this
    exact List.eq_nil_of_length_eq_zero (by simpa using this)

/-! ### `bfs` -/

theorem bfs_fuel (nbrs : K → Option (List K)) (w : K → Nat) (U : List K)
    (hw : ∀ u ns, nbrs u = some ns → ns.length ≤ w u ∧ u ∈ U) :
    ∀ (fuel : Nat) (q vis acc : List K), q.length + wt w U vis < fuel →
      ∃ out, bfs nbrs fuel q vis acc = some out := by
  intro fuel
  induction fuel with
  | zero => intro q vis acc h; omega
  | succ fuel ih =>
    intro q vis acc h
    cases q with
    | nil => exact ⟨acc.reverse, by simp [bfs]⟩
    | cons k q =>
      simp only [List.length_cons] at h
      rw [bfs]
      cases hk : nbrs k with
      | none => exact ih _ _ _ (by omega)
      | some ns =>
        simp only
        by_cases hkv : k ∈ vis
        · simp only [hkv, if_true]; exact ih _ _ _ (by omega)
        · simp only [hkv, if_false]
          obtain ⟨h1, h2⟩ := hw k ns hk
          have := wt_lt w h2 hkv
          apply ih
          simp only [List.length_append]
          omega

/-! ### `removeL` -/

theorem removeL_fuel {g0 : Dag V} (hwf : g0.Wf) :
    ∀ (fuel : Nat) (g : Dag V) (R ks : List K), Rel g0 R g →
      ks.length + wt g0.wD g0.keys R < fuel → ∃ g', Dag.removeL fuel g ks = some g' := by
  intro fuel
  induction fuel with
  | zero => intro g R ks _ h; omega
  | succ fuel ih =>
    intro g R ks hrel h
    cases ks with
    | nil => exact ⟨g, by simp [Dag.removeL]⟩
    | cons k ks =>
      simp only [List.length_cons] at h
      rw [Dag.removeL]
      cases hk : g.get k with
      | none => exact ih _ _ _ hrel (by omega)
      | some n =>
        simp only
        obtain ⟨hkR, n0, hn0, hn⟩ := hrel.get_some hk
        have hkU : k ∈ g0.keys := Dag.mem_keys_iff.mpr (Dag.contains_iff.mpr ⟨n0, hn0⟩)
        have hlt := wt_lt g0.wD hkU hkR
        have hlen : n.dependents.length ≤ g0.wD k := by
          rw [hn]
          simp only [Node.strip_dependents, Dag.wD, Dag.dependentsOf_of_get hn0]
          exact List.length_filter_le _ _
        obtain ⟨g1, hg1⟩ := ih (g.detach k n) (k :: R) n.dependents (detach_rel hwf hrel hk) (by omega)
        rw [hg1]
        simp only
        obtain ⟨R1, hp1⟩ := removeL_post hwf fuel _ _ _ _ (detach_rel hwf hrel hk) hg1
        have := wt_anti g0.wD g0.keys hp1.mono
        exact ih g1 R1 ks hp1.rel (by omega)

/-! ### `mergeLoop` -/

theorem mergeLoop_fuel (other : Dag V) :
    ∀ (fuel : Nat) (q vis : List K) (sf : Dag V), q.length + wt other.wD other.keys vis < fuel →
      ∃ r, Dag.mergeLoop other fuel q vis sf = some r := by
  intro fuel
  induction fuel with
  | zero => intro q vis sf h; omega
  | succ fuel ih =>
    intro q vis sf h
    cases q with
    | nil => exact ⟨sf, by simp [Dag.mergeLoop]⟩
    | cons k q =>
      simp only [List.length_cons] at h
      rw [Dag.mergeLoop]
      by_cases hkv : k ∈ vis
      · simp only [hkv, if_true]; exact ih _ _ _ (by omega)
      · simp only [hkv, if_false]
        have hanti := wt_anti other.wD other.keys (vis := vis) (vis' := k :: vis)
          (fun x hx => List.mem_cons_of_mem _ hx)
        cases hk : other.get k with
        | none => exact ih _ _ _ (by omega)
        | some n =>
          simp only
          have hkU : k ∈ other.keys := Dag.mem_keys_iff.mpr (Dag.contains_iff.mpr ⟨n, hk⟩)
          have := wt_lt other.wD hkU hkv
          apply ih
          simp only [List.length_append]
          have : n.dependents.length = other.wD k := by simp [Dag.wD, Dag.dependentsOf_of_get hk]
          omega

/-! ### searches on a graph `g` that is `g0` minus `R` -/

theorem Rel.descendantsOf_fuel {g0 g : Dag V} {R : List K} (hrel : Rel g0 R g) {k : K} {n : Node V}
    (hk : g.get k = some n) {fuel : Nat} (hf : g0.fuelFor 0 + g0.wD k ≤ fuel) :
    ∃ ds, g.descendantsOf fuel n = some ds := by
  obtain ⟨hkR, n0, hn0, hn⟩ := hrel.get_some hk
  unfold Dag.descendantsOf
  apply bfs_fuel _ g0.wD g0.keys
  · intro u ns hu
    cases hgu : g.get u with
    | none => simp [hgu] at hu
    | some m =>
      simp [hgu] at hu
      obtain ⟨_, m0, hm0, hm⟩ := hrel.get_some hgu
      refine ⟨?_, Dag.mem_keys_iff.mpr (Dag.contains_iff.mpr ⟨m0, hm0⟩)⟩
      rw [← hu, hm]
      simp only [Node.strip_dependents, Dag.wD, Dag.dependentsOf_of_get hm0]
      exact List.length_filter_le _ _
  · have h1 := fuelFor_wD g0 0 []
    have hlen : n.dependents.length ≤ g0.wD k := by
      rw [hn]
      simp only [Node.strip_dependents, Dag.wD, Dag.dependentsOf_of_get hn0]
      exact List.length_filter_le _ _
    omega

theorem Rel.ancestorsOf_fuel {g0 g : Dag V} {R : List K} (hrel : Rel g0 R g) {k : K} {n : Node V}
    (hk : g.get k = some n) {fuel : Nat} (hf : g0.fuelFor 0 + g0.wP k ≤ fuel) :
    ∃ ds, g.ancestorsOf fuel n = some ds := by
  obtain ⟨hkR, n0, hn0, hn⟩ := hrel.get_some hk
  unfold Dag.ancestorsOf
  apply bfs_fuel _ g0.wP g0.keys
  · intro u ns hu
    cases hgu : g.get u with
    | none => simp [hgu] at hu
    | some m =>
      simp [hgu] at hu
      obtain ⟨_, m0, hm0, hm⟩ := hrel.get_some hgu
      refine ⟨?_, Dag.mem_keys_iff.mpr (Dag.contains_iff.mpr ⟨m0, hm0⟩)⟩
      rw [← hu, hm]
      simp [Dag.wP, Dag.depsOf_of_get hm0]
  · have h1 := fuelFor_wP g0 0 []
    have hlen : n.deps.length ≤ g0.wP k := by
      rw [hn]; simp [Dag.wP, Dag.depsOf_of_get hn0]
    omega

theorem bfs_fuel_mono (nbrs : K → Option (List K)) : ∀ (fuel : Nat) (q vis acc out : List K),
    bfs nbrs fuel q vis acc = some out → bfs nbrs (fuel + 1) q vis acc = some out := by
  intro fuel
  induction fuel with
  | zero => intro q vis acc out h; simp [bfs] at h
  | succ fuel ih =>
    intro q vis acc out h
    cases q with
    | nil => simpa [bfs] using h
    | cons k q =>
      rw [bfs] at h
      rw [bfs]
      cases hk : nbrs k with
      | none => simp only [hk] at h ⊢; exact ih _ _ _ _ h
      | some ns =>
        simp only [hk] at h ⊢
        by_cases hkv : k ∈ vis
        · simp only [hkv, if_true] at h ⊢; exact ih _ _ _ _ h
        · simp only [hkv, if_false] at h ⊢; exact ih _ _ _ _ h

theorem bfs_fuel_le (nbrs : K → Option (List K)) {f f' : Nat} (hle : f ≤ f') {q vis acc out : List K}
    (h : bfs nbrs f q vis acc = some out) : bfs nbrs f' q vis acc = some out := by
  induction hle with
  | refl => exact h
  | step _ ih => exact bfs_fuel_mono _ _ _ _ _ _ ih

/-- weight of a key is bounded by the total -/
theorem wD_wP_le_fuelFor (g : Dag V) {k : K} (hk : k ∈ g.keys) (n : Nat) :
    g.fuelFor 0 + g.wD k ≤ g.fuelFor n + g.fuelFor 0 ∧ g.fuelFor 0 + g.wP k ≤ g.fuelFor n + g.fuelFor 0 := by
  have : g.wD k + g.wP k + 1 ≤ (g.keys.map fun k => (g.depsOf k).length + (g.dependentsOf k).length + 1).sum := by
    have hgen : ∀ l : List K, k ∈ l →
        g.wD k + g.wP k + 1 ≤ (l.map fun k => (g.depsOf k).length + (g.dependentsOf k).length + 1).sum := by
      intro l
      induction l with
      | nil => intro h; simp at h
      | cons a l ih =>
        intro h
        simp only [List.map_cons, List.sum_cons]
        rcases List.mem_cons.mp h with rfl | h
        · simp [Dag.wD, Dag.wP]; omega
        · have := ih h; omega
    exact hgen _ hk
  simp only [Dag.fuelFor]
  omega

/-! ### composite traversals -/

theorem fuel2_bounds (g : Dag V) (n : Nat) :
    g.fuelFor n ≤ g.fuel2 n ∧ g.fuelFor 1 ≤ g.fuel2 n ∧
    (∀ k, k ∈ g.keys → g.fuelFor 0 + g.wD k ≤ g.fuel2 n ∧ g.fuelFor 0 + g.wP k ≤ g.fuel2 n) := by
  refine ⟨by simp [Dag.fuel2], ?_, fun k hk => wD_wP_le_fuelFor g hk n⟩
  simp only [Dag.fuel2, Dag.fuelFor]; omega

theorem Rel.siblingsOf_fuel {g0 g : Dag V} {R : List K} (hrel : Rel g0 R g) {k : K} {n : Node V}
    (hk : g.get k = some n) {fuel : Nat}
    (hf : g0.fuelFor 0 + g0.wD k ≤ fuel ∧ g0.fuelFor 0 + g0.wP k ≤ fuel) :
    ∃ sibs, g.siblingsOf fuel k n = some sibs := by
  obtain ⟨a, ha⟩ := hrel.ancestorsOf_fuel hk hf.2
  obtain ⟨d, hd⟩ := hrel.descendantsOf_fuel hk hf.1
  simp [Dag.siblingsOf, ha, hd]

theorem pruneLoop_fuel {S : Type} {g0 : Dag V} (hwf : g0.Wf) {F : Nat}
    (hF1 : g0.fuelFor 1 ≤ F)
    (hF2 : ∀ k, k ∈ g0.keys → g0.fuelFor 0 + g0.wD k ≤ F ∧ g0.fuelFor 0 + g0.wP k ≤ F)
    (filter : S → K → Node V → List (K × Node V) → S × Bool) :
    ∀ (ks : List K) (g : Dag V) (s : S) (R : List K), Rel g0 R g →
      ∃ r, Dag.pruneLoop F filter g s ks = some r := by
  intro ks
  induction ks with
  | nil => intro g s R _; exact ⟨(g, s), by simp [Dag.pruneLoop]⟩
  | cons k ks ih =>
    intro g s R hrel
    rw [Dag.pruneLoop]
    cases hk : g.get k with
    | none => exact ih g s R hrel
    | some n =>
      simp only
      obtain ⟨hkR, n0, hn0, hn⟩ := hrel.get_some hk
      have hkU : k ∈ g0.keys := Dag.mem_keys_iff.mpr (Dag.contains_iff.mpr ⟨n0, hn0⟩)
      obtain ⟨sibs, hs⟩ := hrel.siblingsOf_fuel hk (hF2 k hkU)
      rw [hs]
      simp only
      split
      · exact ih g _ R hrel
      · have h1 := fuelFor_wD g0 1 R
        obtain ⟨g1, hg1⟩ := removeL_fuel hwf F g R [k] hrel (by simp; omega)
        have hg1' : g.remove F k = some g1 := hg1
        rw [hg1']
        simp only
        obtain ⟨R1, hp1⟩ := removeL_post hwf F g R [k] g1 hrel hg1
        exact ih g1 _ R1 hp1.rel

theorem pruneBy_fuel {S : Type} {g : Dag V} (hwf : g.Wf) (roots : List K)
    (filter : S → K → Node V → List (K × Node V) → S × Bool) (le : K × V → K × V → Bool) (s : S) :
    ∃ r, g.pruneBy (g.fuel2 roots.length) roots filter le s = some r := by
  obtain ⟨b1, b2, b3⟩ := fuel2_bounds g roots.length
  have h1 := fuelFor_wD g roots.length []
  obtain ⟨⟨vis, ord⟩, hd⟩ := dfs_visitByNext_fuel g le (fuel := g.fuel2 roots.length) roots [] [] (by omega)
  unfold Dag.pruneBy
  rw [hd]
  exact pruneLoop_fuel hwf b2 b3 filter ord g s [] (Rel.refl hwf)

theorem foldLoop_fuel {A : Type} {g : Dag V} (hwf : g.Wf) {F : Nat}
    (hF2 : ∀ k, k ∈ g.keys → g.fuelFor 0 + g.wD k ≤ F)
    (f : A → K → Node V → A × Bool) :
    ∀ (ks skip : List K) (a : A), ∃ r, g.foldLoop F f ks skip a = some r := by
  intro ks
  induction ks with
  | nil => intro skip a; exact ⟨a, by simp [Dag.foldLoop]⟩
  | cons k ks ih =>
    intro skip a
    rw [Dag.foldLoop]
    split
    · exact ih skip a
    · cases hk : g.get k with
      | none => exact ih skip a
      | some n =>
        simp only
        split
        · exact ih skip _
        · have hkU : k ∈ g.keys := Dag.mem_keys_iff.mpr (Dag.contains_iff.mpr ⟨n, hk⟩)
          obtain ⟨ds, hds⟩ := (Rel.refl hwf).descendantsOf_fuel hk (hF2 k hkU)
          rw [hds]
          exact ih _ _

theorem fold_fuel {A : Type} {g : Dag V} (hwf : g.Wf) (roots : List K) (a : A)
    (f : A → K → Node V → A × Bool) : g.fold (g.fuel2 roots.length) roots a f ≠ .fuel := by
  obtain ⟨b1, b2, b3⟩ := fuel2_bounds g roots.length
  have h1 := fuelFor_wD g roots.length []
  obtain ⟨⟨vis, ord⟩, hd⟩ := dfs_visitNext_fuel g (fuel := g.fuel2 roots.length) roots.reverse [] []
    (by simp; omega)
  obtain ⟨r, hr⟩ := foldLoop_fuel hwf (F := g.fuel2 roots.length) (fun k hk => (b3 k hk).1) f ord [] a
  unfold Dag.fold
  split
  · simp
  · rw [hd]; simp only; rw [hr]; simp

end HeartwoodModel.Dag
