import HeartwoodModel.Model.Patch
import HeartwoodModel.Lemmas.Cob
/-! Frame lemmas for `Model/Patch.lean`: which fields an action can touch. -/
namespace HeartwoodModel.Patch
open HeartwoodModel.Cob

theorem withReview_frame {p p' : Patch} {rid : Id} {f : Review → Except Err Review}
    (h : withReview p rid f = .ok p') : p' = { p with revisions := p'.revisions } := by
  unfold withReview at h
  repeat' split at h
  all_goals first | (cases h; rfl) | cases h

theorem withRevision_frame {p p' : Patch} {r : Id} {f : Revision → Except Err Revision}
    (h : withRevision p r f = .ok p') : p' = { p with revisions := p'.revisions } := by
  unfold withRevision at h
  repeat' split at h
  all_goals first | (cases h; rfl) | cases h

/-- What an applied action can do to `state` and `merges`: nothing; a lifecycle move between the three
non-merged, conflict-free states; or a merge that records the author's merge and re-tallies. -/
theorem action_state_merges {p p' : Patch} {a : Action} {e : Id} {au : Actor} {doc : Doc}
    (h : action p a e au doc = .ok p') :
    (p'.state = p.state ∧ p'.merges = p.merges) ∨
    (∃ l, a = .lifecycle l ∧ (p.state = .draft ∨ p.state = .archived ∨ p.state = .opened []) ∧
      (p'.state = .draft ∨ p'.state = .archived ∨ p'.state = .opened []) ∧ p'.merges = p.merges) ∨
    (∃ r c, a = .merge r c .yes ∧ p'.merges = ins au (r, c) p.merges ∧
      (p'.state = p.state ∨
       (∃ r' c', p'.state = .merged r' c' ∧ doc.threshold ≤ countMerges p'.merges (r', c')) ∨
       ∃ cs, p'.state = .opened cs)) := by
  cases a
  case merge r c anc =>
    simp only [action] at h
    split at h
    · cases h
    · cases h; left; exact ⟨rfl, rfl⟩
    · split at h
      · cases h; left; exact ⟨rfl, rfl⟩
      · cases h
      · right; right
        refine ⟨r, c, rfl, ?_⟩
        split at h
        · cases h; exact ⟨rfl, Or.inl rfl⟩
        · rename_i r' c' hq
          cases h
          refine ⟨rfl, Or.inr (Or.inl ⟨r', c', rfl, ?_⟩)⟩
          have hm : (r', c') ∈ quorumPairs (ins au (r, c) p.merges) doc.threshold := by
            rw [hq]; exact List.mem_singleton.mpr rfl
          unfold quorumPairs at hm
          have := (List.mem_filter.mp hm).2
          exact of_decide_eq_true this
        · cases h; exact ⟨rfl, Or.inr (Or.inr ⟨_, rfl⟩)⟩
  case lifecycle l =>
    simp only [action] at h
    split at h
    · rename_i hv
      right; left
      refine ⟨l, rfl, hv, ?_⟩
      split at h <;> cases h
      · exact ⟨Or.inr (Or.inr rfl), rfl⟩
      · exact ⟨Or.inl rfl, rfl⟩
      · exact ⟨Or.inr (Or.inl rfl), rfl⟩
    · cases h; left; exact ⟨rfl, rfl⟩
  all_goals (
    simp only [action] at h
    repeat' split at h
    all_goals first
      | (cases h; left; exact ⟨rfl, rfl⟩)
      | (cases h)
      | (left; rw [withReview_frame h]; exact ⟨rfl, rfl⟩)
      | (left; rw [withRevision_frame h]; exact ⟨rfl, rfl⟩))

/-- A merge is authorised only for delegates of the document the op refers to. -/
theorem authorization_merge {p : Patch} {r : Id} {c : Commit} {anc : Anc} {actor : Actor} {doc : Doc}
    (h : authorization p (.merge r c anc) actor doc = .ok .allow) : doc.isDelegate actor = true := by
  unfold authorization at h
  split at h
  · assumption
  · simp at h

end HeartwoodModel.Patch
