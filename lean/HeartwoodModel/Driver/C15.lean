import HeartwoodModel.Model.Wire
import HeartwoodModel.Driver.Util
/-! Driver entry for C15.

Case: `<message bytes hex> <onion set> <flag>` — `wire::deserialize::<Message>` on the bytes. `onion set`:
the raw 35-byte Tor addresses of the input accepted by the real `OnionAddrV3::from_raw_bytes`. `flag`
(`g` = the bytes were produced by `wire::serialize` from a constructed message) is for the harness oracle.

Output: `ok <re-encoding> lossy=<->|p|a>` (`p`: a ping/pong padding byte was not zero; `a`: the user agent of
a node announcement was missing and defaulted; the re-encoding is `!` when `wire::serialize`
would panic), `incomplete` (EOF error), `invalid` (any other error), `panic:<site>`. -/
namespace HeartwoodModel.Driver.C15
open HeartwoodModel.Codec HeartwoodModel.Wire HeartwoodModel.Driver.Util

def toBytes (l : List Nat) : Bytes := l.map UInt8.ofNat
def ofBytes (b : Bytes) : List Nat := b.map UInt8.toNat

/-- djb2 over the bytes, 32 bit. -/
def hash (b : Bytes) : Nat := b.foldl (fun h x => (h * 33 + x.toNat) % 4294967296) 5381

def short (b : Bytes) : String :=
  if b.length ≤ 24 then toHex (ofBytes b) else s!"#{b.length}.{hash b}"

def parseSet (s : String) : Option (List Bytes) :=
  if s == "-" then some [] else ((splitOn s ',').mapM hexBytes?).map (·.map toBytes)

def run (args : List String) : String :=
  match args with
  | [bytesS, onionS, _flag] =>
    match hexBytes? bytesS, parseSet onionS with
    | some bytes, some onions =>
      let env : Env := ⟨fun raw => onions.contains raw⟩
      match deserializeG env (toBytes bytes) with
      | .ok (m, g) _ =>
        let re := match m.serialize? with
          | some b => short b
          | none => "!"
        let lossy := if g.padNonZero then "p" else if g.agentDefaulted then "a" else "-"
        s!"ok {re} lossy={lossy}"
      | .incomplete => "incomplete"
      | .invalid => "invalid"
      | .panic site => s!"panic:{site}"
    | _, _ => "bad-op"
  | _ => "bad-op"

end HeartwoodModel.Driver.C15
