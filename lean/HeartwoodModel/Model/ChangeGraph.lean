import HeartwoodModel.Model.Dag
/-!
# Model of `crates/radicle-cob/src/change_graph.rs` (C05, C06; evaluator used by C04, C07, C08)

Generic in

* `E`  — the entry type (`radicle_cob::Entry`: what `storage.load(oid)` returns, minus its parents);
* `S`  — the object state (`Issue`, `Patch`, `Identity`, `Thread`, …);
* `store : K → Option (List K × E)` — the graph of `change::Storage::load` on the ids used
  (`none` = the commit cannot be loaded as a change); ids are naturals ordered like the `Oid`s;
* `sigOk : E → Bool` — `Entry::valid_signatures`;
* `ts : E → Nat` — `Entry::timestamp`;
* `init : E → Option S` — `Evaluate::init` (`none` = error);
* `applyM : S → K → E → List (K × E) → S × Bool` — `Evaluate::apply(&mut self, entry, concurrent)`:
  the state the call *leaves behind* and whether it returned `Ok`. The Rust method mutates `self` in
  place and the evaluator keeps using the same `self` after an `Err`, so a failing `apply` that is not
  atomic leaks into the result; `Atomic applyM` says it does not. An `apply` written functionally as
  `… → Option S` is plugged in through `applyOfOption` (atomic by construction).
-/
namespace HeartwoodModel.ChangeGraph
open HeartwoodModel.Dag

variable {E S : Type}

abbrev Store (E : Type) := K → Option (List K × E)

/-- The `while let Some(child_id) = child_ids.pop()` loop of `ChangeGraph::load`. The `Vec` used as a
stack is a list whose head is the top. Returns the edge-less graph and `edges_to_add`. -/
def loadLoop (store : Store E) : Nat → List K → Dag E → List (K × K) → Option (Dag E × List (K × K))
  | 0, _, _, _ => none
  | _ + 1, [], g, es => some (g, es)
  | fuel + 1, c :: st, g, es =>
    if g.contains c then loadLoop store fuel st g es
    else
      match store c with
      | some (parents, e) =>
        loadLoop store fuel (parents.reverse ++ st) (g.node c e) (es ++ parents.map fun p => (c, p))
      | none => loadLoop store fuel st g es

/-- `for (child, parent) in edges_to_add { graph.dependency(child, parent) }` -/
def addEdges (g : Dag E) (es : List (K × K)) : Dag E :=
  es.foldl (fun g e => g.dependency e.1 e.2) g

/-- `ChangeGraph::load(storage, tip_refs, …)`. Outer `none` = fuel; inner `none` = the `?` on
`graph.roots().next()` (no root: nothing could be loaded). -/
def load (store : Store E) (fuel : Nat) (tips : List K) : Option (Option (Dag E)) :=
  match loadLoop store fuel tips.reverse Dag.empty [] with
  | none => none
  | some (g, es) =>
    let g' := addEdges g es
    if g'.rootsOf.isEmpty then some none else some (some g')

/-- parents of a change (`[]` when it cannot be loaded) -/
def storeNext (store : Store E) (k : K) : List K :=
  match store k with
  | some (ps, _) => ps
  | none => []

/-- Fuel that always suffices for `load` when every id that can be loaded is in `ids`
(see `Props/C05.lean`, `load_fuel_sufficient`). -/
def loadFuel (store : Store E) (ids tips : List K) : Nat :=
  tips.length + (ids.map fun k => (storeNext store k).length + 1).sum + 1

/-- Fuel the driver gives to `evaluate` (`Props/C05.lean`, `evaluate_fuel_sufficient`). -/
def evalFuel (g : Dag E) (root : K) : Nat := g.fuel2 (g.dependentsOf root).length

/-- `ChangeGraph::chronological`: `(timestamp, oid)` lexicographic, as `ordering != Greater`. -/
def chronological (ts : E → Nat) (x y : K × E) : Bool :=
  ts x.2 < ts y.2 || (ts x.2 == ts y.2 && decide (x.1 ≤ y.1))

inductive EvalOut (S E : Type) where
  /-- `EvaluateError::MissingRoot` -/
  | missingRoot
  /-- `EvaluateError::Signature` (root entry) -/
  | badRootSig
  /-- `EvaluateError::Init` -/
  | initErr
  | fuel
  /-- `Ok(CollaborativeObject { object, history: History::new(root, graph), .. })` -/
  | ok (s : S) (g : Dag E)

/-- The closure passed to `prune_by` by `evaluate`. -/
def evalFilter (sigOk : E → Bool) (applyM : S → K → E → List (K × E) → S × Bool)
    (s : S) (k : K) (n : Node E) (sibs : List (K × Node E)) : S × Bool :=
  if !sigOk n.value then (s, false)
  else applyM s k n.value (sibs.map fun p => (p.1, p.2.value))

/-- `ChangeGraph::evaluate`; `root` is the object id. -/
def evaluate (sigOk : E → Bool) (ts : E → Nat) (init : E → Option S)
    (applyM : S → K → E → List (K × E) → S × Bool) (fuel : Nat) (g : Dag E) (root : K) : EvalOut S E :=
  match g.get root with
  | none => .missingRoot
  | some rn =>
    if !sigOk rn.value then .badRootSig
    else
      match init rn.value with
      | none => .initErr
      | some s0 =>
        match g.pruneBy fuel rn.dependents (evalFilter sigOk applyM) (chronological ts) s0 with
        | none => .fuel
        | some (g', s) => .ok s g'

/-- `apply` leaves the state untouched whenever it fails. -/
def Atomic (applyM : S → K → E → List (K × E) → S × Bool) : Prop :=
  ∀ s k e sibs, (applyM s k e sibs).2 = false → (applyM s k e sibs).1 = s

/-- `apply` ignores the concurrent entries it is given (true of `Issue`, `Patch`, `Thread`, whose
`action` takes `_concurrent`; NOT of `Identity::op`, which reads `concurrent.is_empty()`). -/
def SiblingIndependent (applyM : S → K → E → List (K × E) → S × Bool) : Prop :=
  ∀ s k e sibs sibs', applyM s k e sibs = applyM s k e sibs'

/-- Plug in an `apply` written as a pure function `… → Option S` (`none` = `Err`). -/
def applyOfOption (apply : S → K → E → List (K × E) → Option S)
    (s : S) (k : K) (e : E) (sibs : List (K × E)) : S × Bool :=
  match apply s k e sibs with
  | some s' => (s', true)
  | none => (s, false)

/-- `cob::get` / `verif::get_from_tips`: load, then evaluate. `some none` = `Ok(None)`. -/
def getFromTips (store : Store E) (sigOk : E → Bool) (ts : E → Nat) (init : E → Option S)
    (applyM : S → K → E → List (K × E) → S × Bool) (fuelL fuelE : Nat) (tips : List K) (root : K) :
    Option (Option (EvalOut S E)) :=
  match load store fuelL tips with
  | none => none
  | some none => some none
  | some (some g) => some (some (evaluate sigOk ts init applyM fuelE g root))

end HeartwoodModel.ChangeGraph
