import HeartwoodModel.Model.CobCache
import HeartwoodModel.Driver.Util
/-! Driver entry for C09.

A case is the annotated script written by the harness (see `harness/c09/src/main.rs`). The driver reads
the annotations (`@ok:K:id=obj`, `@fail`, `@rm:K:id=obj|-`, `@f:changes|refs`, `@x:changes`, `@pool:ids`) and the cache
maintenance tokens (`w.P`, `iw.I`, `wa`, `iwa`); the other script tokens only say which Rust API produced
the annotation that follows them; `R0` / `R1` select the repository the following tokens operate on (the
repositories share one cache database). For every `@pool` it prints, for each repository, the answers of every query on the model's
cache and on the model's truth: `<cached>` or `<cached>!<direct>`. -/
namespace HeartwoodModel.Driver.C09
open HeartwoodModel.CobCache HeartwoodModel.Driver.Util

def ids? (s : String) : List String := if s == "-" then [] else splitOn s '+'

def status? (s : String) : Option PStatus := PStatus.ofName s

def review? (s : String) : Option (String × Review) :=
  match splitOn s '/' with
  | [actor, vid, cs] => some (actor, { id := vid, comments := ids? cs })
  | _ => none

def rev? (s : String) : Option (Id × Option Revision) :=
  match splitOn s '~' with
  | [rid, "!"] => some (rid, none)
  | [rid, dg, cs, rvs] => do
    let reviews ← if rvs == "-" then some [] else (splitOn rvs '^').mapM review?
    some (rid, some { digest := dg, discussion := ids? cs, reviews })
  | _ => none

def patch? (s : String) : Option Patch :=
  match splitOn s '.' with
  | [st, extra, dg, revs] => do
    let status ← status? st
    let revisions ← if revs == "-" then some [] else (splitOn revs ';').mapM rev?
    some { state := { status, extra }, revisions, digest := dg }
  | _ => none

def istate? (s : String) : Option IState :=
  if s == "open" then some .open else if s == "solved" then some (.closed .solved)
  else if s == "other" then some (.closed .other) else none

def issue? (s : String) : Option Issue :=
  match splitOn s '.' with
  | [st, dg, cs] => (istate? st).map fun state => { state, comments := ids? cs, digest := dg }
  | _ => none

/-- `name=obj` or `name=-`. -/
def binding? {α : Type} (parse : String → Option α) (s : String) : Option (Id × Option α) :=
  match splitOn s '=' with
  | [n, "-"] => some (n, none)
  | [n, o] => (parse o).map fun v => (n, some v)
  | _ => none

/-- The repositories of a case (they share the cache). -/
def repos : List Repo := ["R0", "R1"]

structure St where
  patches : Store Patch := Store.empty
  issues : Store Issue := Store.empty
  /-- the repository the following tokens operate on (`R0` / `R1` tokens switch) -/
  cur : Repo := "R0"
  outs : List String := []

def pstep (s : St) (op : Op Patch) : St := { s with patches := s.patches.step stdPatchCodec.enc s.cur op }
def istep (s : St) (op : Op Issue) : St := { s with issues := s.issues.step stdIssueCodec.enc s.cur op }

/-! ### printing -/

def showRes {α : Type} (f : α → String) : Res α → String
  | .ok a => f a
  | .err => "E"
  | .panic => "P"

def cmp (c d : String) : String := if c == d then c else c ++ "!" ++ d

def showOpt {α : Type} (f : α → String) : Option α → String
  | none => "-"
  | some a => f a

def showTable {α : Type} (dg : α → String) (t : Table α) : String :=
  if t.isEmpty then "-" else joinWith "," (t.map fun kv => kv.1 ++ "#" ++ dg kv.2)

def showPCounts (c : PatchCounts) : String :=
  joinWith "," [toString c.open_, toString c.draft, toString c.archived, toString c.merged]

def showICounts (c : IssueCounts) : String := joinWith "," [toString c.open_, toString c.closed]

def showFind (r : Id × Patch × Revision) (rid : Id) : String :=
  r.1 ++ "/" ++ rid ++ "/" ++ r.2.2.digest ++ "#" ++ r.2.1.digest

/-- Every query on the cache handle of repository `r` and on `r` directly. -/
def queryRepo (s : St) (r : Repo) (pool : List Id) : String :=
  let pc := stdPatchCodec
  let ic := stdIssueCodec
  let ct := view r s.patches.cache
  let tt := s.patches.truth r
  let ict := view r s.issues.cache
  let itt := s.issues.truth r
  let g := pool.map fun n =>
    n ++ "=" ++ cmp (showRes (showOpt (·.digest)) (cachedGet pc ct n)) (showOpt (·.digest) (directGet tt n))
  let l := cmp (showRes (showTable (·.digest)) (cachedList pc ct)) (showTable (·.digest) (directList tt))
  let sts := [PStatus.draft, .open, .archived, .merged].map fun st =>
    "S" ++ st.name ++ ":" ++ cmp (showRes (showTable (·.digest)) (cachedListByStatus pc ct st))
      (showTable (·.digest) (directListByStatus tt st))
  let c := cmp (showRes showPCounts (cachedCounts pc List.head? ct)) (showPCounts (directCounts tt))
  let f := pool.map fun n =>
    n ++ "=" ++ cmp (showRes (showOpt (showFind · n)) (cachedFindByRevision pc ct n))
      (showOpt (showFind · n) (directFindByRevision tt n))
  let ig := pool.map fun n =>
    n ++ "=" ++ cmp (showRes (showOpt (·.digest)) (icachedGet ic ict n)) (showOpt (·.digest) (idirectGet itt n))
  let il := cmp (showRes (showTable (·.digest)) (icachedList ic ict)) (showTable (·.digest) (idirectList itt))
  let ists := [("open", IState.open), ("solved", .closed .solved), ("other", .closed .other)].map fun nf =>
    "IS" ++ nf.1 ++ ":" ++ cmp (showRes (showTable (·.digest)) (icachedListByStatus ic ict nf.2))
      (showTable (·.digest) (idirectListByStatus itt nf.2))
  let icn := cmp (showRes showICounts (icachedCounts ic List.head? ict)) (showICounts (idirectCounts itt))
  joinWith "|" (["G:" ++ joinWith "," g, "L:" ++ l] ++ sts ++ ["C:" ++ c, "F:" ++ joinWith "," f,
    "IG:" ++ joinWith "," ig, "IL:" ++ il] ++ ists ++ ["IC:" ++ icn])

def query (s : St) (pool : List Id) : String :=
  joinWith " ## " (repos.map fun r => r ++ "[" ++ queryRepo s r pool ++ "]")

/-! ### tokens -/

def scriptOps : List String :=
  ["pc", "pd", "rev", "red", "cm", "cred", "rv", "rvc", "rvred", "lc", "mg", "ed", "rm",
   "ic", "icm", "icred", "ilc", "ied", "irm", "bogus"]

/-- `Kname=obj` with `K ∈ {p, i}`; returns the two kinds of bindings. -/
def kbinding? (s : String) : Option (Sum (Id × Option Patch) (Id × Option Issue)) :=
  if s.startsWith "p" then (binding? patch? (s.drop 1).toString).map Sum.inl
  else if s.startsWith "i" then (binding? issue? (s.drop 1).toString).map Sum.inr
  else none

def refupd? (s : String) : Option (Bool × RefUpd) :=
  match splitOn s ':' with
  | [kn, k] =>
    let skipped := k == "s"
    if !(k == "s" || k == "c" || k == "u" || k == "d") then none
    else if kn.startsWith "p" then some (true, { id := (kn.drop 1).toString, skipped })
    else if kn.startsWith "i" then some (false, { id := (kn.drop 1).toString, skipped })
    else none
  | _ => none

def stepTok (s : St) (tok : String) : Option St :=
  if tok.startsWith "@ok:" then
    match splitOn ((tok.drop 4).toString) ':' with
    | ["p", b] => match binding? patch? b with
      | some (n, some p) => some (pstep s (.write n p))
      | _ => none
    | ["i", b] => match binding? issue? b with
      | some (n, some p) => some (istep s (.write n p))
      | _ => none
    | _ => none
  else if tok == "@fail" then some s
  else if tok.startsWith "@rm:" then
    match splitOn ((tok.drop 4).toString) ':' with
    | ["p", b] => (binding? patch? b).map fun (n, o) => pstep s (.remove n o)
    | ["i", b] => (binding? issue? b).map fun (n, o) => istep s (.remove n o)
    | _ => none
  else if tok.startsWith "@f:" then
    match splitOn ((tok.drop 3).toString) '|' with
    | [chg, refs] => do
      let chgs ← if chg == "-" then some [] else (splitOn chg '&').mapM kbinding?
      let rs ← if refs == "-" then some [] else (splitOn refs ',').mapM refupd?
      let pch := chgs.filterMap fun c => match c with | .inl x => some x | .inr _ => none
      let ich := chgs.filterMap fun c => match c with | .inr x => some x | .inl _ => none
      let prs := rs.filterMap fun r => if r.1 then some r.2 else none
      let irs := rs.filterMap fun r => if r.1 then none else some r.2
      some (istep (pstep s (.fetched pch prs)) (.fetched ich irs))
    | _ => none
  else if tok.startsWith "@x:" then
    -- changes of the repository that no cache write follows
    let chg := (tok.drop 3).toString
    (if chg == "-" then some [] else (splitOn chg '&').mapM kbinding?).map fun chgs =>
      let pch := chgs.filterMap fun c => match c with | .inl x => some x | .inr _ => none
      let ich := chgs.filterMap fun c => match c with | .inr x => some x | .inl _ => none
      istep (pstep s (.external pch)) (.external ich)
  else if tok.startsWith "@pool:" then
    let pool := splitOn ((tok.drop 6).toString) ','
    some { s with outs := query s pool :: s.outs }
  else if tok.startsWith "@" then none
  else if tok == "q" then some s
  else if repos.contains tok then some { s with cur := tok }
  else if tok == "wa" then some (pstep s .rewriteAll)
  else if tok == "iwa" then some (istep s .rewriteAll)
  else if tok.startsWith "w." then some (pstep s (.rewrite ((tok.drop 2).toString)))
  else if tok.startsWith "iw." then some (istep s (.rewrite ((tok.drop 3).toString)))
  else if tok.startsWith "f:" || tok.startsWith "f!:" || tok.startsWith "x:" then some s
  else
    match splitOn tok '.' with
    | h :: _ => if scriptOps.contains h then some s else none
    | [] => none

def run (args : List String) : String :=
  let rec go (s : St) : List String → Option St
    | [] => some s
    | t :: ts => match stepTok s t with
      | some s' => go s' ts
      | none => none
  match go {} args with
  | none => "bad-op"
  | some s => if s.outs.isEmpty then "-" else joinWith " ;; " s.outs.reverse

end HeartwoodModel.Driver.C09
