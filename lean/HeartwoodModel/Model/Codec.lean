/-!
# One codec library for every byte format (DESIGN §2.2) — C13a, C14, C15

Decoders are functions `Bytes → Res α`. The result type has one outcome for everything the Rust
`Decode::decode` implementations in `radicle-node/src/wire*.rs` can do on a reader:

* `ok a rest`    — a value was decoded, `rest` is what the reader still holds;
* `incomplete`   — the reader ran out of bytes (`wire::Error::Io` with `ErrorKind::UnexpectedEof`,
                   i.e. `Error::is_eof()`);
* `invalid`      — any other decode error (the property never distinguishes between them);
* `panic site`   — an `unwrap`/`expect`/index/`unreachable!` on the decode path fired (`site` names it).

Import-free (core Lean only): the compiled drivers link against this file.
-/
namespace HeartwoodModel.Codec

abbrev Bytes := List UInt8

inductive Res (α : Type) where
  | ok (a : α) (rest : Bytes)
  | incomplete
  | invalid
  | panic (site : String)
  deriving Repr, DecidableEq

abbrev Dec (α : Type) := Bytes → Res α

variable {α β : Type}

/-- Decode nothing. -/
def Dec.pure (a : α) : Dec α := fun b => .ok a b

/-- Always a (non-EOF) decode error. -/
def Dec.fail : Dec α := fun _ => .invalid

/-- Sequencing (`?` on every `decode` call in the Rust). -/
def Dec.bind (d : Dec α) (f : α → Dec β) : Dec β := fun b =>
  match d b with
  | .ok a r => f a r
  | .incomplete => .incomplete
  | .invalid => .invalid
  | .panic s => .panic s

def Dec.map (f : α → β) (d : Dec α) : Dec β := fun b =>
  match d b with
  | .ok a r => .ok (f a) r
  | .incomplete => .incomplete
  | .invalid => .invalid
  | .panic s => .panic s

/-- Decode, then validate/convert; `none` is a (non-EOF) decode error (`try_from`, `from_str`…). -/
def Dec.filterMap (f : α → Option β) (d : Dec α) : Dec β := fun b =>
  match d b with
  | .ok a r => match f a with
    | some x => .ok x r
    | none => .invalid
  | .incomplete => .incomplete
  | .invalid => .invalid
  | .panic s => .panic s

/-- Decoding from a buffer that is known to be complete (a `Cursor` over a length-delimited payload):
running out of bytes means the content is invalid, not that more data is needed.
(`Frame::decode`, gossip branch, after the `fix:` commit 4fb4757.) -/
def Dec.sealed (d : Dec α) : Dec α := fun b =>
  match d b with
  | .incomplete => .invalid
  | r => r

/-- A length-delimited inner value: `outer` yields a complete payload, `inner` is run on a `Cursor` over
exactly that payload. Running out of payload bytes is an error, bytes left over after the inner value are
dropped (`Frame::decode`, gossip branch). -/
def Dec.nested (outer : Dec Bytes) (inner : Dec α) : Dec α := fun b =>
  match outer b with
  | .ok p r =>
    match inner.sealed p with
    | .ok a _ => .ok a r
    | .incomplete => .invalid
    | .invalid => .invalid
    | .panic s => .panic s
  | .incomplete => .incomplete
  | .invalid => .invalid
  | .panic s => .panic s

/-- `read_exact` of `n` bytes. -/
def take (n : Nat) : Dec Bytes := fun b =>
  if b.length < n then .incomplete else .ok (b.take n) (b.drop n)

/-- `read_u8`. -/
def u8 : Dec UInt8 := fun b =>
  match b with
  | [] => .incomplete
  | x :: r => .ok x r

/-- Big-endian value of a byte string. -/
def beVal (bs : Bytes) : Nat := bs.foldl (fun acc x => acc * 256 + x.toNat) 0

/-- The `k`-byte big-endian encoding of `n` (meant for `n < 256^k`; higher bits are dropped, as `as u8` does). -/
def beEnc : Nat → Nat → Bytes
  | 0, _ => []
  | k + 1, n => beEnc k (n / 256) ++ [UInt8.ofNat (n % 256)]

/-- `read_u16/u32/u64::<NetworkEndian>` for `k = 2, 4, 8`; `k = 1` is `read_u8` as a number. -/
def beNat (k : Nat) : Dec Nat := (take k).map beVal

/-- `n` items in a row (the loop of `BoundedVec::decode`, `Refs::decode`). -/
def count (d : Dec α) : Nat → Dec (List α)
  | 0 => Dec.pure []
  | n + 1 => d.bind fun a => (count d n).map (a :: ·)

/-! ## Stream deserializer (`radicle-node/src/deserializer.rs`)

`Deserializer<B, D>` is a byte buffer (`unparsed`, at most `B` bytes) plus `D::decode`. -/

structure Deser where
  /-- `unparsed` -/
  buf : Bytes
  deriving Repr, DecidableEq

/-- `Deserializer::input`: all-or-nothing append; `none` = `Err(bounded::Error)` (inbox full). -/
def Deser.input (B : Nat) (s : Deser) (chunk : Bytes) : Option Deser :=
  if s.buf.length + chunk.length > B then none else some ⟨s.buf ++ chunk⟩

/-- Outcome of `deserialize_next`. -/
inductive Next (α : Type) where
  /-- `Ok(Some(item))`, buffer drained up to the cursor position -/
  | item (a : α) (s : Deser)
  /-- `Ok(None)`: any `UnexpectedEof` — buffer untouched -/
  | none
  /-- `Err(_)`: any other error — buffer untouched -/
  | err
  | panic (site : String)
  deriving Repr

/-- `Deserializer::deserialize_next`. -/
def Deser.next (d : Dec α) (s : Deser) : Next α :=
  match d s.buf with
  | .ok a r => .item a ⟨r⟩
  | .incomplete => .none
  | .invalid => .err
  | .panic site => .panic site

/-- How a `while let Some(x) = de.deserialize_next()?` loop ended. -/
inductive Status where
  /-- the decoder asked for more bytes -/
  | more
  /-- a decode error (the connection is dropped) -/
  | err
  | panic (site : String)
  deriving Repr, DecidableEq

/-- Drain the buffer: call `next` until it stops yielding items. `none` = out of fuel. -/
def Deser.drain (d : Dec α) : Nat → Deser → Option (List α × Deser × Status)
  | 0, _ => none
  | fuel + 1, s =>
    match s.next d with
    | .item a s' =>
      match Deser.drain d fuel s' with
      | some (as, s'', st) => some (a :: as, s'', st)
      | none => none
    | .none => some ([], s, .more)
    | .err => some ([], s, .err)
    | .panic site => some ([], s, .panic site)

/-- How feeding a list of chunks ended. -/
inductive FeedEnd where
  | more | err | full | panic (site : String)
  deriving Repr, DecidableEq

/-- Fuel used for draining a buffer: one more than its length (every item consumes at least one byte for
the decoders we use; see `Lemmas/Codec.lean`, `drain_fuel_sufficient`). -/
def drainFuel (s : Deser) : Nat := s.buf.length + 1

/-- Feed a list of chunks, draining after each one (what `wire/protocol.rs` does on `SessionEvent::Data`):
the items obtained after each chunk, the final buffer and how it ended. Feeding stops at the first error
(the peer is disconnected) or when the inbox is full. `none` = a drain ran out of fuel. -/
def Deser.feed (d : Dec α) (B : Nat) : Deser → List Bytes → Option (List (List α) × Deser × FeedEnd)
  | s, [] => some ([], s, .more)
  | s, c :: cs =>
    match s.input B c with
    | none => some ([], s, .full)
    | some s1 =>
      match Deser.drain d (drainFuel s1) s1 with
      | none => none
      | some (as, s2, .more) =>
        match Deser.feed d B s2 cs with
        | some (groups, s3, e) => some (as :: groups, s3, e)
        | none => none
      | some (as, s2, .err) => some ([as], s2, .err)
      | some (as, s2, .panic site) => some ([as], s2, .panic site)

end HeartwoodModel.Codec
